"""Monitors evaluated while a call proceeds (DESIGN §2.4).

* step counter + path digest + abort injection: one sys.monitoring LINE callback that only
  ever sees frames of ngo's own source (`/src/ngo/`); every other code location answers
  DISABLE once and costs nothing afterwards.  The number of ngo LINE events is the
  simulator's only notion of time.
* outer-loop trace: `ngo.api.deepcopy` is a module global called exactly once at the top of
  every iteration of `while True` in `optimize`, `ngo.api.postprocess` exactly once after it.
  Wrapping both yields the iteration count and every intermediate program, with no hook in
  /repo.  If the wrapper sees no call the monitor reports itself blind.
"""
from __future__ import annotations

import sys
import time
import zlib

MOD = (1 << 61) - 1
TOOL = 3


class Diverged(BaseException):
    """raised by a monitor inside the call: BaseException so that ngo's `except Exception` cannot eat it"""

    def __init__(self, kind: str):
        super().__init__(kind)
        self.kind = kind


class Abort(KeyboardInterrupt):
    """injected Ctrl-C / host cancellation"""


class StepMonitor:
    """LINE-event monitor restricted to ngo frames"""

    def __init__(self, marker: str = "/src/ngo/"):
        self.marker = marker
        self.n = 0
        self.h = 0
        self.cpu0 = 0.0
        self.cap = 0
        self.abort_at = 0
        self.active = False
        self.last = ("", 0)
        self._fid: dict[int, int] = {}
        self._codes: list = []  # keep code objects alive so that id() stays unique
        self.lines_hit: dict | None = None
        mon = sys.monitoring
        mon.use_tool_id(TOOL, "ngoverif")
        mon.register_callback(TOOL, mon.events.LINE, self._on_line)
        self._mon = mon

    def _on_line(self, code, line):
        k = self._fid.get(id(code))
        if k is None:
            fn = code.co_filename
            i = fn.find(self.marker)
            if i < 0:
                return self._mon.DISABLE
            k = zlib.crc32(fn[i:].encode()) & 0xFFFFF
            self._fid[id(code)] = k
            self._codes.append(code)
        n = self.n = self.n + 1
        self.h = (self.h * 1000003 + k * 7919 + line) % MOD
        if self.lines_hit is not None:
            key = (k, line)
            self.lines_hit[key] = self.lines_hit.get(key, 0) + 1
        if n == self.abort_at:
            self.last = (code.co_filename, line)
            raise Abort()
        if n == self.cap:
            self.last = (code.co_filename, line)
            raise Diverged("steps")
        return None

    def start(self, cap: int = 0, abort_at: int = 0, record_lines: bool = False):
        """begin a monitored call"""
        self.n = 0
        self.h = 0
        self.cpu0 = time.process_time()
        self.cap = cap
        self.abort_at = abort_at
        self.lines_hit = {} if record_lines else None
        self._mon.set_events(TOOL, self._mon.events.LINE)
        self.active = True

    def stop(self):
        """end of call: (steps, path digest)"""
        self._mon.set_events(TOOL, 0)
        self.active = False
        return self.n, self.h


class LoopTracer:
    """wraps ngo.api.deepcopy / ngo.api.postprocess"""

    def __init__(self, iter_cap: int = 100):
        import ngo.api as api

        self.api = api
        self.iter_cap = iter_cap
        self.states: list[list[str]] = []
        self.types: list[list[str]] = []
        self.final: list[str] | None = None
        self.blind = not (hasattr(api, "deepcopy") and hasattr(api, "postprocess"))
        self._orig_deepcopy = getattr(api, "deepcopy", None)
        self._orig_post = getattr(api, "postprocess", None)
        self.enabled = False
        if not self.blind:
            api.deepcopy = self._deepcopy
            api.postprocess = self._postprocess

    def begin(self):
        """start tracing a call"""
        self.states = []
        self.types = []
        self.final = None
        self.enabled = True

    def end(self):
        """stop tracing"""
        self.enabled = False

    def _deepcopy(self, x, *a, **kw):
        if self.enabled:
            try:
                st = [str(s) for s in x]
            except TypeError:
                st = None
            if st is not None:
                seen = sum(1 for old in self.states[:-1] if old == st)
                self.states.append(st)
                self.types.append([getattr(getattr(s, "ast_type", None), "name", "?") for s in x])
                if seen >= 2:
                    raise Diverged("repeated-state")
                if len(self.states) > self.iter_cap:
                    raise Diverged("iterations")
        return self._orig_deepcopy(x, *a, **kw)

    def _postprocess(self, prg, *a, **kw):
        if self.enabled:
            prg = list(prg)
            self.final = [str(s) for s in prg]
        return self._orig_post(prg, *a, **kw)
