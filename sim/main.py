"""Entry point of ./check: dispatch, exit protocol (0 held / 1 violation / 2 harness error)."""
from __future__ import annotations

import argparse
import sys
import traceback


def main(argv=None) -> int:
    """parse and dispatch"""
    ap = argparse.ArgumentParser(prog="check")
    ap.add_argument("property", choices=["C17", "C19", "C03", "selftest"])
    ap.add_argument("--tier", choices=["quick", "thorough"])
    ap.add_argument("--seed", type=int)
    ap.add_argument("--replay")
    args = ap.parse_args(argv)
    from sim.driver import HarnessError

    try:
        if args.property == "C17":
            from sim import c17

            return c17.replay(args.replay) if args.replay else c17.run(args)
        if args.property == "C19":
            from sim import c19

            return c19.replay(args.replay) if args.replay else c19.run(args)
        if args.property == "C03":
            from sim import c03

            return c03.replay(args.replay) if args.replay else c03.run(args)
        from sim import selftest

        return selftest.run(args)
    except HarnessError as exc:
        print(f"HARNESS-ERROR: {exc}", file=sys.stderr)
        return 2
    except Exception:  # pylint: disable=broad-exception-caught
        traceback.print_exc()
        print("HARNESS-ERROR: unexpected exception in the checker", file=sys.stderr)
        return 2


if __name__ == "__main__":
    sys.exit(main())
