"""World installation inside a worker process (DESIGN §2.1).

A world is (H, A, D, Dcount, R, G, Lg).  H (PYTHONHASHSEED) is fixed by the driver through the
environment of the worker interpreter; everything else is installed here, *before* ngo is
imported, through attributes the dependencies themselves offer:

  A  salt of a content-based replacement for clingo's address-based AST/Symbol hash
     (None = keep clingo's real hash: real-layout tier)
  D  sympy.core.symbol.Dummy._base_dummy_index, Dcount = bump of Dummy._count
  R  seed of sympy.core.random.rng and _assumptions_rng
  G  gc regime        Lg  logging regime of the embedding application
"""
from __future__ import annotations

import gc
import hashlib
import io
import logging
import os
import struct

_SALT = {"key": None}


def _content_hash(obj) -> int:
    return int.from_bytes(
        hashlib.blake2b(str(obj).encode(), digest_size=8, key=_SALT["key"]).digest(), "little", signed=True
    )


def set_salt(a) -> None:
    """(re)draw the order regime of every set[AST]/set[Symbol] built from now on"""
    _SALT["key"] = struct.pack("<Q", int(a) & (2**64 - 1))


def install(world: dict) -> dict:
    """install the world; returns facts about what was installed (for the event log)"""
    facts = {}
    h = world.get("H")
    if h is not None and os.environ.get("PYTHONHASHSEED") != str(h):
        raise RuntimeError(f"worker started with PYTHONHASHSEED={os.environ.get('PYTHONHASHSEED')} but world H={h}")
    import clingo.ast
    import clingo.symbol

    if world.get("A") is not None:
        set_salt(world["A"])
        clingo.ast.AST.__hash__ = _content_hash
        clingo.symbol.Symbol.__hash__ = _content_hash
        facts["ast_hash"] = "content-salted"
    else:
        facts["ast_hash"] = "clingo-real"
    import sympy.core.random as scr
    import sympy.core.symbol as scs

    if world.get("D") is not None:
        scs.Dummy._base_dummy_index = int(world["D"])
        scs.Dummy._count += int(world.get("Dcount", 0))
    if world.get("R") is not None:
        scr.seed(int(world["R"]))
        scr._assumptions_rng.seed(int(world["R"]))
    g = world.get("G", "on")
    if g == "off":
        gc.disable()
    else:
        gc.enable()
    lg = world.get("Lg", "none")
    root = logging.getLogger()
    if lg in ("debug", "info"):
        handler = logging.StreamHandler(_Sink())
        handler.setFormatter(logging.Formatter("%(asctime)s %(name)s %(levelname)s %(message)s"))
        root.addHandler(handler)
        root.setLevel(logging.DEBUG if lg == "debug" else logging.INFO)
    elif lg == "critical":
        logging.disable(logging.CRITICAL)
    elif lg == "untouched":
        pass
    else:
        # no handler configured: python's lastResort handler would write WARNINGs to stderr
        root.addHandler(logging.NullHandler())
    return facts


class _Sink(io.TextIOBase):
    """formats are computed, bytes are dropped"""

    def write(self, s):  # type: ignore[override]
        return len(s)


def fingerprint() -> str:
    """iteration order of fixed probe sets: identifies the order regime actually in force"""
    from clingo.ast import Location, Position, Variable

    from ngo.utils.ast import Predicate

    pos = Position("<f>", 1, 1)
    loc = Location(pos, pos)
    vs = {Variable(loc, n) for n in ("A", "B", "C", "X", "Y", "Z", "V", "W")}
    ps = {Predicate(n, i % 3) for i, n in enumerate(("a", "b", "c", "edge", "node", "p", "q", "slot"))}
    ss = {"a", "b", "c", "edge", "node", "p", "q", "slot"}
    return (
        "".join(v.name for v in vs) + "|" + ",".join(f"{p.name}{p.arity}" for p in ps) + "|" + ",".join(ss)
    )
