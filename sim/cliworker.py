"""C19: the `ngo` process inside a pipe simulator (DESIGN §3.2).

usage: PYTHONHASHSEED=<H> python -u -m sim.cliworker <job.json> <events.jsonl>

This process is the *pristine parent*: it installs the world, imports ngo and never calls
into it.  Per run it forks
  * a reference child that computes what the model says stdout must be
    (parse_string + auto_detect_* + optimize through the API), cached per (program, mask, decls);
  * the system child: fds 0/1/2 are simulator-owned kernel pipes, sys.argv is set,
    `ngo.__main__.main()` runs and the child exits the way CPython would.
The simulator is the producer on stdin (seeded chunk vector, a chunk is written only when the
pipe is empty, so every read(0) of clingo's parser returns exactly the planned chunk), and
the consumer on stdout/stderr (4 KiB pipes, seeded drain order and sizes, early close, /dev/full).
Only timing-independent facts are logged: the two byte streams and the exit status.
"""
from __future__ import annotations

import array
import base64
import fcntl
import hashlib
import io
import json
import os
import random
import select
import signal
import sys
import termios
import time
import traceback

F_SETPIPE_SZ = 1031
WALL_RUN = 300


class SimTimeout(Exception):
    """harness-level wall timeout of one child"""


class ChildBlocked(Exception):
    """the child got everything it is ever going to get, burns no CPU, and does not finish"""


def _cpu_ticks(pid: int):
    try:
        with open(f"/proc/{pid}/stat", "rb") as f:
            rest = f.read().rsplit(b")", 1)[1].split()
        return int(rest[11]) + int(rest[12])
    except (OSError, IndexError, ValueError):
        return None


class BlockedChild:
    """after stdin has been delivered completely: 30 s without a CPU tick and without an output byte"""

    def __init__(self, pid):
        self.pid = pid
        self.mark = None

    CPU_CAP_TICKS = 400 * os.sysconf("SC_CLK_TCK")  # > 10x the most expensive child of the workload

    def check(self, stdin_done: bool, progress: int):
        ticks = _cpu_ticks(self.pid)
        if ticks is not None and ticks > self.CPU_CAP_TICKS:
            raise ChildBlocked()  # burns CPU without end (e.g. retrying a failed write for ever)
        if not stdin_done:
            self.mark = None
            return
        now = time.time()
        if self.mark is None or progress != self.mark[2]:
            self.mark = (now, ticks, progress)
            return
        if ticks is not None and self.mark[1] is not None and now - self.mark[0] > 40.0:
            # no output byte for 40 s; a child that computes uses about one core, a child that is stuck - blocked,
            # or sleeping between hopeless retries - uses (almost) none
            if ticks - self.mark[1] < 0.1 * (now - self.mark[0]) * os.sysconf("SC_CLK_TCK"):
                raise ChildBlocked()
            self.mark = (now, ticks, progress)


# ------------------------------------------------------------------------------------------
def _exit_like_cpython(code: int):
    try:
        sys.stdout.flush()
    except BaseException:  # pylint: disable=broad-exception-caught
        code = 120
    try:
        sys.stderr.flush()
    except BaseException:  # pylint: disable=broad-exception-caught
        pass
    os._exit(code)


def _system_child(run: dict, r0: int, w1: int, w2: int):
    """never returns"""
    try:
        os.dup2(r0, 0)
        if (run.get("fault") or {}).get("kind") == "devfull":
            fd = os.open("/dev/full", os.O_WRONLY)
            os.dup2(fd, 1)
        else:
            os.dup2(w1, 1)
        os.dup2(w2, 2)
        os.closerange(3, 256)
        if run.get("exec"):
            env = dict(os.environ)
            os.execve(sys.executable, [sys.executable] + (["-u"] if run.get("buffering") == "unbuffered" else []) + ["-m", "ngo"] + run["argv"], env)
        mode = run.get("buffering", "pipe")
        if mode == "unbuffered":
            sys.stdout = io.TextIOWrapper(open(1, "wb", 0, closefd=False), write_through=True)
            sys.stderr = io.TextIOWrapper(open(2, "wb", 0, closefd=False), write_through=True, errors="backslashreplace")
        else:
            sys.stdout = open(1, "w", closefd=False, encoding="utf-8")  # pylint: disable=consider-using-with
            if mode == "tty":
                sys.stdout.reconfigure(line_buffering=True)
            sys.stderr = open(2, "w", closefd=False, encoding="utf-8", errors="backslashreplace")  # pylint: disable=consider-using-with
            sys.stderr.reconfigure(line_buffering=True)
        sys.stdin = open(0, "r", closefd=False, encoding="utf-8")  # pylint: disable=consider-using-with
        sys.argv = ["ngo"] + list(run["argv"])
        import ngo.__main__ as m

        code = 0
        try:
            m.main()
        except SystemExit as e:
            if e.code is None:
                code = 0
            elif isinstance(e.code, int):
                code = e.code
            else:
                try:
                    print(e.code, file=sys.stderr)
                except BaseException:  # pylint: disable=broad-exception-caught
                    pass
                code = 1
        except BaseException:  # pylint: disable=broad-exception-caught
            try:
                traceback.print_exc()
            except BaseException:  # pylint: disable=broad-exception-caught
                pass
            code = 1
        _exit_like_cpython(code)
    except BaseException:  # pylint: disable=broad-exception-caught
        os._exit(97)


def drive(run: dict, data: bytes) -> dict:
    """fork the system child and play producer and consumers"""
    r0, w0 = os.pipe()
    r1, w1 = os.pipe()
    r2, w2 = os.pipe()
    if run.get("small_pipes", True):
        fcntl.fcntl(w1, F_SETPIPE_SZ, 4096)
        fcntl.fcntl(w2, F_SETPIPE_SZ, 4096)
    sys.stdout.flush()
    sys.stderr.flush()
    fault = run.get("fault") or {}
    # a consumer that is gone from the start: close before the child exists, so that no write can win a race
    pre_out = fault.get("kind") == "close_stdout" and fault.get("at") == 0
    pre_err = fault.get("kind") == "close_stderr" and fault.get("at") == 0
    if pre_out:
        os.close(r1)
    if pre_err:
        os.close(r2)
    pid = os.fork()
    if pid == 0:
        _system_child(run, r0, w1, w2)
    os.close(r0)
    os.close(w1)
    os.close(w2)
    os.set_blocking(w0, False)
    rng = random.Random(run.get("drain_seed", 0))
    sizes = run.get("drain_sizes") or [4096]
    policy = run.get("drain_policy", "random")
    chunks = list(run.get("chunks") or [])
    out, err = bytearray(), bytearray()
    probes = {"full_seen": 0, "chunks_written": 0, "epipe_closed": False}
    pos = ci = 0
    open_fds = {}
    if not pre_out:
        open_fds[r1] = "out"
    else:
        probes["epipe_closed"] = True
    if not pre_err:
        open_fds[r2] = "err"
    w0_open = True
    buf = array.array("i", [0])
    deadline = time.time() + WALL_RUN
    # stalls: legal schedules in which a peer is simply slow in REAL time (the child's own timers, if it has
    # any, are the kernel's; nothing short of waiting makes them fire)
    stall = run.get("stall") or {}
    t_fork = time.time()
    stall_first = float(stall.get("first", 0))
    stall_mid = stall.get("mid")  # [chunk index, seconds]
    stall_out = float(stall.get("out", 0))
    mid_until = 0.0
    close_out_at = fault.get("at") if fault.get("kind") == "close_stdout" else None
    close_err_at = fault.get("at") if fault.get("kind") == "close_stderr" else None
    watch = BlockedChild(pid)
    try:
        while open_fds or w0_open:
            if time.time() > deadline:
                raise SimTimeout()
            watch.check(not w0_open and time.time() - t_fork >= stall_out, len(out) + len(err))
            if w0_open:
                fcntl.ioctl(w0, termios.FIONREAD, buf)
                p = select.poll()
                p.register(w0, select.POLLERR)
                if p.poll(0):
                    os.close(w0)
                    w0_open = False
                elif buf[0] == 0 and (time.time() - t_fork < stall_first or time.time() < mid_until):
                    probes["stalled"] = probes.get("stalled", 0) + 1
                    time.sleep(0.005)
                elif buf[0] == 0:
                    if stall_mid and ci == int(stall_mid[0]) and not mid_until and pos < len(data) and ci > 0:
                        mid_until = time.time() + float(stall_mid[1])
                        continue
                    if pos < len(data):
                        c = chunks[ci] if ci < len(chunks) else 4096
                        ci += 1
                        c = max(1, min(int(c), 4096))
                        try:
                            os.write(w0, data[pos : pos + c])
                        except BrokenPipeError:
                            os.close(w0)
                            w0_open = False
                            continue
                        pos += c
                        probes["chunks_written"] += 1
                    else:
                        os.close(w0)
                        w0_open = False
            if not open_fds:
                # outputs are gone; the child may still be reading or computing
                got, st = os.waitpid(pid, os.WNOHANG)
                if got != 0:
                    if w0_open:
                        os.close(w0)
                    return _result(st, out, err, probes, reaped=True)
                time.sleep(0.001)
                continue
            p = select.poll()
            for fd in open_fds:
                if fd == r1 and time.time() - t_fork < stall_out:
                    continue  # the consumer of stdout is not reading yet
                p.register(fd, select.POLLIN | select.POLLHUP)
            ev = p.poll(1)
            ready = sorted((fd for fd, _ in ev), key=lambda fd: open_fds[fd])
            if not ready:
                continue
            if policy == "stderr_last" and len(ready) > 1:
                fd = r1
            elif policy == "stdout_last" and len(ready) > 1:
                fd = r2
            else:
                fd = ready[rng.randrange(len(ready))]
            fcntl.ioctl(fd, termios.FIONREAD, buf)
            if buf[0] >= 4096:
                probes["full_seen"] += 1
            n = sizes[rng.randrange(len(sizes))]
            if fd == r1 and close_out_at is not None:
                n = min(n, close_out_at - len(out))
            if fd == r2 and close_err_at is not None:
                n = min(n, close_err_at - len(err))
            if n <= 0:
                os.close(fd)
                del open_fds[fd]
                if fd == r1:
                    probes["epipe_closed"] = True
                continue
            b = os.read(fd, n)
            if not b:
                os.close(fd)
                del open_fds[fd]
            else:
                (out if fd == r1 else err).extend(b)
        wdl = time.time() + WALL_RUN
        while True:
            got, st = os.waitpid(pid, os.WNOHANG)
            if got != 0:
                break
            if time.time() > wdl:
                raise SimTimeout()
            watch.check(True, len(out) + len(err))
            time.sleep(0.001)
        return _result(st, out, err, probes, reaped=True)
    except (SimTimeout, ChildBlocked) as stop:
        try:
            os.kill(pid, signal.SIGKILL)
            os.waitpid(pid, 0)
        except OSError:
            pass
        for fd in list(open_fds) + ([w0] if w0_open else []):
            try:
                os.close(fd)
            except OSError:
                pass
        return {"exit": None, "timeout": True, "blocked": isinstance(stop, ChildBlocked), "out": bytes(out), "err": bytes(err), "probes": probes}


def _result(st, out, err, probes, reaped):
    code = os.waitstatus_to_exitcode(st)
    return {"exit": code, "timeout": False, "out": bytes(out), "err": bytes(err), "probes": probes}


# ------------------------------------------------------------------------------------------
def _reference_child(text: str, mask: int, inp, out, wfd: int):
    """never returns: writes json {ok, statements | exc}"""
    try:
        devnull = os.open(os.devnull, os.O_WRONLY)
        os.dup2(devnull, 2)
        os.dup2(devnull, 1)
        from clingo.ast import parse_string

        import ngo
        from ngo.utils.ast import Predicate

        from sim.worker import TRAITS

        prg: list = []
        parse_string(text, prg.append, logger=lambda c, m: None)
        ip = ngo.auto_detect_input(prg) if inp == "auto" else [Predicate(n, a) for n, a in inp]
        op = ngo.auto_detect_output(prg) if out == "auto" else [Predicate(n, a) for n, a in out]
        flags = {t: bool(mask >> i & 1) for i, t in enumerate(TRAITS)}
        try:
            res = ngo.optimize(prg, ip, op, **flags)
            doc = {"ok": True, "statements": [str(s) for s in res]}
        except Exception as exc:  # pylint: disable=broad-exception-caught
            doc = {"ok": False, "exc": type(exc).__name__}
    except BaseException as exc:  # pylint: disable=broad-exception-caught
        doc = {"ok": False, "harness": repr(exc)}
    data = json.dumps(doc).encode()
    with os.fdopen(wfd, "wb") as f:
        f.write(data)
    os._exit(0)


def reference(text: str, mask: int, inp, out) -> dict:
    """run the reference in a forked child of the same pristine parent"""
    r, w = os.pipe()
    sys.stdout.flush()
    sys.stderr.flush()
    pid = os.fork()
    if pid == 0:
        os.close(r)
        _reference_child(text, mask, inp, out, w)
    os.close(w)
    chunks = []
    deadline = time.time() + WALL_RUN
    while True:
        rl, _, _ = select.select([r], [], [], 1.0)
        if rl:
            b = os.read(r, 65536)
            if not b:
                break
            chunks.append(b)
        elif time.time() > deadline:
            os.kill(pid, signal.SIGKILL)
            os.waitpid(pid, 0)
            os.close(r)
            return {"ok": False, "harness": "reference timeout"}
    os.close(r)
    os.waitpid(pid, 0)
    try:
        return json.loads(b"".join(chunks))
    except json.JSONDecodeError:
        return {"ok": False, "harness": "reference child died"}


# ------------------------------------------------------------------------------------------
def judge(run: dict, exp: dict, ref: dict | None, res: dict) -> tuple[str, str]:
    """(verdict, detail); verdict in ok | not-judged | violation kinds"""
    from sim import climodel

    fault = run.get("fault")
    if res.get("blocked"):
        return "violation:does-not-terminate", "stdin delivered and closed, no output byte for 40 s while using < 10 % of a core, or more than 400 CPU seconds used; still alive"
    if res.get("timeout"):
        return "harness-timeout", ""
    out = res["out"]
    if exp["verdict"] == "reject":
        if out:
            return "violation:output-on-rejected-options", f"{len(out)} bytes on stdout"
        if res["exit"] == 0:
            return "violation:rejected-options-exit-0", ""
        return "ok", "rejected"
    if ref is None or "harness" in ref:
        return "harness-reference", str(ref)
    lenient_reject = exp.get("lenient") and not out and res["exit"] not in (0, None)
    if lenient_reject:
        return "ok", "undocumented spelling rejected without output"
    if not ref["ok"]:
        return "not-judged", "reference optimize raises " + ref.get("exc", "?")
    want = climodel.expected_stdout(ref["statements"])
    if fault and fault.get("kind") in ("close_stdout", "devfull", "close_stderr"):
        if fault["kind"] == "close_stderr":
            # stdout is still delivered completely or the process died early: prefix rule
            if not want.startswith(out):
                return "violation:stdout-not-a-prefix-under-fault", _diff(want, out)
            return "ok", "prefix"
        if not want.startswith(out):
            return "violation:stdout-not-a-prefix-under-fault", _diff(want, out)
        return "ok", "prefix"
    if out != want:
        return "violation:stdout-differs-from-model", _diff(want, out)
    if res["exit"] != 0:
        return "violation:exit-status", f"exit {res['exit']}"
    return "ok", "equal"


def _diff(want: bytes, got: bytes) -> str:
    n = 0
    for a, b in zip(want, got):
        if a != b:
            break
        n += 1
    return f"first difference at byte {n}: want {want[n:n+80]!r} got {got[n:n+80]!r} (lengths {len(want)}/{len(got)})"


def main(argv):
    """run the job"""
    job = json.load(open(argv[1], encoding="utf-8"))
    from sim import climodel, worldlib

    world = dict(job["world"])
    world["Lg"] = "untouched"
    facts = worldlib.install(world)
    import ngo
    import ngo.__main__  # noqa: F401  pylint: disable=unused-import

    cache: dict = {}
    with open(argv[2], "w", encoding="utf-8") as outf:

        def emit(ev):
            outf.write(json.dumps(ev, sort_keys=True) + "\n")
            outf.flush()

        emit({"i": -1, "op": "world", "world": job["world"], "facts": facts, "fp": worldlib.fingerprint(), "ngo": os.path.realpath(ngo.__file__)})
        for i, run in enumerate(job["runs"]):
            text = job["programs"][run["program"]]
            data = base64.b64decode(text["b64"]) if isinstance(text, dict) else text.encode("utf-8")
            ptxt = data.decode("utf-8")
            exp = climodel.expect(run["spec"])
            ref = None
            if exp["verdict"] == "accept":
                key = json.dumps([run["program"], exp["mask"], exp["inp"], exp["out"]])
                if key not in cache:
                    cache[key] = reference(ptxt, exp["mask"], exp["inp"], exp["out"])
                ref = cache[key]
            res = drive(run, data)
            verdict, detail = judge(run, exp, ref, res)
            if verdict.startswith("violation") and exp["verdict"] == "accept":
                # unstable reference? (irreproducibility is C17's subject, not C19's)
                again = [reference(ptxt, exp["mask"], exp["inp"], exp["out"]) for _ in range(2)]
                if any(a != ref for a in again):
                    verdict, detail = "note:unstable-reference", detail
            # When a consumer leaves after K > 0 bytes, whether the producer's next write meets EPIPE depends on
            # whether that write was issued before the close: a race the kernel does not let the simulator own.
            # Exit status and stderr of such runs are therefore reach probes, kept out of the replay-compared log.
            flt = run.get("fault") or {}
            racy = flt.get("kind") in ("close_stdout", "close_stderr") and flt.get("at", 0) > 0
            tail = {
                "exit": res.get("exit"),
                "err_sha": hashlib.sha256(res["err"]).hexdigest()[:16],
                "err_len": len(res["err"]),
            }
            ev = {
                "i": i,
                "op": "run",
                "program": run["program"],
                "argv": run["argv"],
                "exit": None if racy else tail["exit"],
                "out_sha": hashlib.sha256(res["out"]).hexdigest()[:16],
                "out_len": len(res["out"]),
                "err_sha": None if racy else tail["err_sha"],
                "err_len": None if racy else tail["err_len"],
                "timing_dependent": tail if racy else None,
                "verdict": verdict,
                "detail": detail,
                "model": exp,
                "ref_ok": None if ref is None else ref.get("ok"),
                "probes": res["probes"],
            }
            if verdict.startswith("violation") or verdict.startswith("harness"):
                ev["stdout"] = res["out"].decode("utf-8", "replace")[:20000]
                ev["stderr_tail"] = res["err"].decode("utf-8", "replace")[-2000:]
                if ref is not None and ref.get("ok"):
                    ev["expected"] = "".join(s + "\n" for s in ref["statements"])[:20000]
            emit(ev)
        emit({"i": len(job["runs"]), "op": "end"})
    return 0


if __name__ == "__main__":
    sys.exit(main(sys.argv))
