"""Named PRNG streams: one integer (VERIF_SEED) decides everything.

`stream(seed, "hist", 3)` returns a `random.Random` whose state is a pure function of
(seed, "hist", 3).  Adding a draw to one stream never shifts another one, and nothing in
the logging paths ever draws.  `random.Random` seeded with an int is the Mersenne twister,
whose output is specified and independent of PYTHONHASHSEED.
"""
from __future__ import annotations

import hashlib
import random


def derive(seed: int, *names) -> int:
    """64-bit value that is a pure function of (seed, names)"""
    h = hashlib.blake2b(digest_size=8)
    h.update(str(int(seed)).encode())
    for n in names:
        h.update(b"\x00")
        h.update(str(n).encode())
    return int.from_bytes(h.digest(), "little")


def stream(seed: int, *names) -> random.Random:
    """independent, named random stream"""
    return random.Random(derive(seed, *names))
