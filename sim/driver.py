"""Spawns one worker interpreter per world and collects the event logs (DESIGN §2.1, §2.8).

A worker that exceeds its wall budget or dies is a *harness error* (exit 2), never a
property verdict.  Workers are plain subprocesses (no multiprocessing pool that could wait
forever on a dead child); their events go to files, not pipes.
"""
from __future__ import annotations

import json
import os
import shutil
import subprocess
import sys
import tempfile
import time
from concurrent.futures import ThreadPoolExecutor

VERIF = os.path.dirname(os.path.dirname(os.path.abspath(__file__)))
REPO = os.environ.get("VERIF_REPO", "/repo")
PYTHON = os.environ.get("VERIF_PYTHON", "/venv/bin/python")
NPROC = int(os.environ.get("VERIF_JOBS", str(min(16, os.cpu_count() or 1))))


class HarnessError(Exception):
    """the machinery failed; says nothing about the property"""


def base_env(hashseed) -> dict:
    """environment of a worker: nothing inherited that could steer python"""
    env = {
        "PATH": "/usr/bin:/bin",
        "HOME": os.environ.get("HOME", "/root"),
        "LANG": "C.UTF-8",
        "PYTHONPATH": f"{REPO}/src:{VERIF}",
        "PYTHONDONTWRITEBYTECODE": "1",
        "PYTHONUNBUFFERED": "1",
    }
    if hashseed is not None:
        env["PYTHONHASHSEED"] = str(hashseed)
    return env


def have_setarch() -> bool:
    """is `setarch -R` permitted here?"""
    exe = shutil.which("setarch")
    if not exe:
        return False
    try:
        r = subprocess.run([exe, "-R", "true"], capture_output=True, timeout=20, check=False)
        return r.returncode == 0
    except Exception:  # pylint: disable=broad-exception-caught
        return False


class Pool:
    """runs jobs in worker interpreters, NPROC at a time"""

    def __init__(self, tag: str):
        self.dir = tempfile.mkdtemp(prefix=f"ngoverif-{tag}-")
        self.count = 0
        self.spawned = 0
        self.cpu_s = 0.0

    def close(self):
        """remove scratch files"""
        shutil.rmtree(self.dir, ignore_errors=True)

    def _run_one(self, job: dict, idx: int):
        jpath = os.path.join(self.dir, f"job{idx}.json")
        epath = os.path.join(self.dir, f"ev{idx}.jsonl")
        spath = os.path.join(self.dir, f"err{idx}.txt")
        with open(jpath, "w", encoding="utf-8") as f:
            json.dump(job, f)
        world = job["world"]
        cmd = [PYTHON, "-u", "-m", job.get("module", "sim.worker"), jpath, epath]
        if world.get("pad") is not None and job.get("module", "sim.worker") == "sim.worker":
            cmd = [PYTHON, "-u", "-c", _PAD_BOOT, str(int(world["pad"])), jpath, epath]
        if world.get("norandomize"):
            cmd = ["setarch", "-R"] + cmd
        wall = int(job.get("wall_s", 600))
        t0 = time.time()
        status = "ok"
        try:
            with open(spath, "w", encoding="utf-8") as err:
                r = subprocess.run(
                    cmd,
                    cwd=VERIF,
                    env=base_env(world.get("H")),
                    stdin=subprocess.DEVNULL,
                    stdout=err,
                    stderr=err,
                    timeout=wall + 30,
                    check=False,
                )
            if r.returncode != 0:
                status = f"died rc={r.returncode}"
        except subprocess.TimeoutExpired:
            status = "timeout"
        dt = time.time() - t0
        events = []
        if os.path.exists(epath):
            with open(epath, encoding="utf-8") as f:
                for line in f:
                    line = line.strip()
                    if line:
                        try:
                            events.append(json.loads(line))
                        except json.JSONDecodeError:
                            status = status if status != "ok" else "truncated event log"
        if status == "ok" and (not events or events[-1].get("op") != "end"):
            status = "no end marker"
        errtail = ""
        if status != "ok":
            try:
                errtail = open(spath, encoding="utf-8", errors="replace").read()[-3000:]
            except OSError:
                pass
        for p in (jpath, epath, spath):
            try:
                os.remove(p)
            except OSError:
                pass
        return {"job": job, "events": events, "status": status, "stderr": errtail, "wall": dt}

    def run(self, jobs: list[dict]) -> list[dict]:
        """run all jobs; results in job order"""
        idx0 = self.count
        self.count += len(jobs)
        self.spawned += len(jobs)
        # longest first for balance
        order = sorted(range(len(jobs)), key=lambda i: -len(jobs[i].get("ops", jobs[i].get("runs", []))))
        results: list = [None] * len(jobs)
        with ThreadPoolExecutor(max_workers=NPROC) as ex:
            futs = {i: ex.submit(self._run_one, jobs[i], idx0 + i) for i in order}
            for i, fut in futs.items():
                results[i] = fut.result()
        for r in results:
            self.cpu_s += r["wall"]
        return results


_PAD_BOOT = (
    "import sys\n"
    "n=int(sys.argv[1])\n"
    "pads=[bytearray(1024) for _ in range(n)]\n"
    "sys.argv=['sim.worker']+sys.argv[2:]\n"
    "import sim.worker as w\n"
    "sys.exit(w.main(sys.argv))\n"
)


def check_results(results: list[dict]):
    """raise HarnessError on the first broken worker"""
    for r in results:
        if r["status"] != "ok":
            w = r["job"]["world"]
            raise HarnessError(f"worker {r['status']} world={w} stderr tail:\n{r['stderr']}")
        first = r["events"][0]
        ngo_file = first.get("ngo", "")
        if not os.path.realpath(ngo_file).startswith(os.path.realpath(REPO) + "/"):
            raise HarnessError(f"worker imported ngo from {ngo_file}, not from {REPO}")


def log(*a):
    """progress on stderr (stdout is reserved for the protocol lines)"""
    print(*a, file=sys.stderr, flush=True)
