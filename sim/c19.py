"""C19 — the command line is the API (DESIGN §3.2).

Seeded search over (option spelling) x (stdin chunk vector) x (consumer drain schedule,
buffering mode) x (stream faults) x (world of the ngo process), the `ngo` process running
between simulator-owned kernel pipes; oracle = the reference model of the documented option
expansion + optimize through the API in a sibling child of the same pristine parent.
"""
from __future__ import annotations

import json
import os

from sim import climodel, common, workload
from sim.driver import REPO, VERIF, HarnessError, Pool, check_results, log
from sim.prng import stream

TIERS = {
    "quick": {"workers": 16, "enumerate": True, "sampled": 1400, "faulted": 320, "exec": 32, "programs": 14},
    "thorough": {"workers": 48, "enumerate": True, "sampled": 24000, "faulted": 5000, "exec": 400, "programs": 60},
}
NAMES = climodel.TRAITS


def special_programs() -> dict:
    """inputs a pipeline really sees"""
    big = "".join(f"p{i}(X,Y) :- q{i}(X), r{i}(Y), X < Y. % comment é中\n" for i in range(1500))
    return {
        "empty": "",
        "nonl": "a :- b.\nc(X) :- d(X), not e(X).",
        "comments": "% only a comment\n%* block\n comment *%\n",
        "utf8": 'name("Zoë – ü中"). p(X) :- name(X). % café\nq("äöü") :- p(_).\n#show q/1.\n',
        # clingo's parser itself emits a message (already included file) while reading this one
        "warn": "#include <incmode>.\n#include <incmode>.\nb(X) :- c(X).\n{ a } :- b(X).\n#show a/0.\n",
        # every character clingo accepts inside a string constant or a comment but that some text API treats as a
        # line boundary or as white space: VT, FF, FS/GS/RS, NEL, LS, PS, a lone CR, NBSP, ZWNBSP, DEL, SOH
        "seps": 's("a\x0bb\x0cc\x1cd\x1de\x1ef\x85g\u2028h\u2029i\rj\xa0k\ufefflm\x7fn\x01o"). % page\x0cbreak: old(1). \u2028 new(2).\n'
        't(X) :- s(X). % \x85 tail(3).\n#show t/1.\n',
        # small programs whose result depends on which predicates are declared input / output
        "iosens1": "b(X) :- c(X).\n{ a } :- b(X).\nfoo(X,Y) :- p(X,Y), not q(Y).\n#show a/0.\n",
        "iosens2": "{ a(X) } :- d(X).\nb(X) :- a(X), d(X).\nc(X) :- b(X).\n:- c(X), X > 3.\n",
        "crlf": "a :- b.\r\nc(X) :- d(X), not e(X).\r\n#show c/1.\r\n",
        "tabs": "a\t:-\tb.\n\tc(X) :- d(X),\n\t\tnot e(X).\n#show c/1.\n",
        "lastcomment": "c(X) :- d(X).\n#show c/1.\n% trailing comment without newline",
        "longline": 's("' + "x" * 70000 + '"). t(X) :- s(X).\n#show t/1.\n',
        "big": big,
    }


def build_programs(seed: int, n: int) -> dict:
    """program pool of a run"""
    rng = stream(seed, "c19", "programs")
    base = workload.load_base()
    progs = {"probe": open(os.path.join(VERIF, "workload", "cli_probe.lp"), encoding="utf-8").read()}
    progs.update(special_programs())
    multi = [b for b in base if b["text"].count(".") >= 2 and len(b["text"]) < 1500]
    for b in rng.sample(multi, n):
        progs[b["id"]] = b["text"]
    for k in range(max(2, n // 5)):
        picks = rng.sample(multi, 2)
        text = workload.compose([p["text"] for p in picks])
        if text is not None:
            progs[f"comp{k}"] = text
    return progs


def gen_spec(rng, text: str, cheap_only: bool) -> tuple[dict, str]:
    """(spec, argument class)"""
    spec: dict = {}
    r = rng.random()
    if cheap_only:
        spec["enable"] = ["none"]
        cls = "none"
    elif r < 0.13:
        cls = "absent"
    elif r < 0.22:
        spec["enable"], cls = ["all"], "all"
    elif r < 0.31:
        spec["enable"], cls = ["default"], "default"
    elif r < 0.38:
        spec["enable"], cls = ["none"], "none"
    elif r < 0.50:
        spec["enable"] = ["default"] + rng.sample(NAMES, rng.choice([1, 1, 2, 3]))
        rng.shuffle(spec["enable"])
        cls = "default+names"
    elif r < 0.78:
        spec["enable"] = rng.sample(NAMES, rng.choice([1, 2, 3, 4]))
        cls = f"names{len(spec['enable'])}"
        if rng.random() < 0.15:
            spec["enable"].append(rng.choice(spec["enable"]))
            cls += "+dup"
    elif r < 0.83:
        spec["enable"] = ["all"] + rng.sample(NAMES, rng.choice([1, 2]))
        rng.shuffle(spec["enable"])
        cls = "all+names"
    elif r < 0.86:
        spec["enable"] = ["all", "default"]
        rng.shuffle(spec["enable"])
        cls = "all+default"
    elif r < 0.91:
        spec["enable"] = ["none"] + rng.sample(NAMES + ["all", "default"], rng.choice([1, 2]))
        rng.shuffle(spec["enable"])
        cls = "invalid:none+others"
    elif r < 0.94:
        spec["enable"] = rng.sample(NAMES, rng.choice([0, 1])) + [rng.choice(["maths", "fast", "duplicates", "min_max", "al1"])]
        cls = "invalid:unknown-token"
    else:
        toks = rng.choice([["all"], ["default"], ["none"], rng.sample(NAMES, 2), ["default", rng.choice(NAMES)]])
        spec["enable"] = [t.upper() if rng.random() < 0.7 else t.capitalize() for t in toks]
        cls = "uppercase"
    preds = workload.predicates_of(text) if text.strip() and len(text) < 5000 else []
    for key in ("inp", "out"):
        r = rng.random()
        if r < 0.36:
            dcls = "absent"
        elif r < 0.46:
            spec[key], dcls = "auto", "auto"
        elif r < 0.56:
            spec[key], dcls = "NOVALUE", "novalue"
        elif r < 0.64:
            spec[key], dcls = "", "empty"
        elif r < 0.95:
            chosen = [p for p in preds if rng.random() < 0.45]
            if rng.random() < 0.3:
                chosen.append(("not_in_program", 2))
            if not chosen:
                chosen = [("zzz", 0)]
            sep = rng.choice([",", ", "])
            spec[key], dcls = sep.join(f"{n}/{a}" for n, a in chosen), "list"
            if rng.random() < 0.25:
                # spellings with stray blanks: before a name, before the slash, before the comma, around the arity
                items = []
                for n, a in chosen:
                    items.append(rng.choice([f" {n}/{a}", f"{n} /{a}", f"{n}/ {a}", f"{n}/{a} ", f"{n}/{a}"]))
                spec[key], dcls = sep.join(items), "list-stray-blanks"
        else:
            spec[key], dcls = rng.choice(["edge", "edge/x", "a/1/2", "a/1,b", "p/1;q/2"]), "malformed"
        cls += f"|{key}:{dcls}"
    r = rng.random()
    if r < 0.4:
        cls += "|log:absent"
    elif r < 0.95:
        lvl = rng.choice(climodel.LEVELS)
        spec["log"] = lvl if rng.random() < 0.6 else lvl.upper()
        cls += f"|log:{lvl}"
    elif r < 0.98:
        spec["log"] = rng.choice(["Debug", "Info", "wArning"])
        cls += "|log:mixedcase"
    else:
        spec["log"] = rng.choice(["verbose", "trace", "0"])
        cls += "|log:invalid"
    present = [k for k in ("enable", "inp", "out", "log") if k in spec]
    if present and rng.random() < 0.1:
        # conventions of the option parser: unambiguous abbreviations, the same option twice with the same value
        sp: dict = {}
        if rng.random() < 0.7:
            sp["abbrev"] = {k: rng.choice(climodel.abbreviations(k)) for k in present if rng.random() < 0.6}
        if not sp.get("abbrev") or rng.random() < 0.5:
            sp["repeat"] = rng.sample(present, rng.choice([1, 1, 2]) if len(present) > 1 else 1)
        spec["sp"] = sp
        cls += "|sp:" + "+".join(sorted(k for k in sp if sp[k]))
    return spec, cls


def utf8_boundaries(data: bytes) -> list[int]:
    """offsets that fall inside a multi-byte sequence"""
    return [i for i in range(1, len(data)) if data[i] & 0xC0 == 0x80]


def gen_schedule(rng, data: bytes) -> tuple[dict, str]:
    """(chunks / drain / buffering, schedule class)"""
    r = rng.random()
    if r < 0.2:
        chunks, ccls = [], "one-block"
    elif r < 0.35 and len(data) <= 800:
        chunks, ccls = [1] * len(data), "1-byte"
    elif r < 0.55:
        inside = utf8_boundaries(data)
        if inside:
            cut = rng.choice(inside)
            chunks, ccls = [], "inside-utf8"
            pos = 0
            while cut - pos > 4096:
                chunks.append(4096)
                pos += 4096
            chunks.append(cut - pos)
        else:
            cut = rng.randrange(1, max(2, min(len(data), 4096)))
            chunks, ccls = [cut], "inside-token"
    else:
        chunks = [rng.choice([1, 2, 3, 17, 100, 4096]) for _ in range(rng.choice([5, 50, 300]))]
        ccls = "random-sizes"
    sizes = rng.choice([[4096], [1], [7], [1, 7, 64, 512, 4096], [64, 512], [4096, 1]])
    policy = rng.choice(["random", "random", "stderr_last", "stdout_last"])
    buffering = rng.choices(["pipe", "tty", "unbuffered"], [0.7, 0.15, 0.15])[0]
    stall = None
    r = rng.random()
    if r < 0.012:
        stall = {"first": rng.choice([1.2, 2.5])}
    elif r < 0.02 and chunks:
        stall = {"mid": [rng.randrange(1, min(len(chunks), 4) + 1), rng.choice([1.2, 2.5])]}
    elif r < 0.028:
        stall = {"out": rng.choice([1.2, 2.5])}
    sched = {
        "stall": stall,
        "chunks": chunks,
        "drain_seed": rng.randrange(2**31),
        "drain_sizes": sizes,
        "drain_policy": policy,
        "buffering": buffering,
        "small_pipes": rng.random() < 0.85,
    }
    scls = f"{ccls}/drain{'-'.join(map(str, sizes))}/{policy}/{buffering}"
    if stall:
        scls += "/stall-" + next(iter(stall))
    return sched, scls


def gen_fault(rng, approx_out: int) -> dict:
    """stream fault"""
    r = rng.random()
    if r < 0.55:
        return {"kind": "close_stdout", "at": rng.choice([0, 1, 10, rng.randrange(0, max(1, approx_out)), 4096, 5000])}
    if r < 0.75:
        return {"kind": "devfull"}
    return {"kind": "close_stderr", "at": rng.choice([0, 1, 50, 500])}


def make_run(rng, progs: dict, pid: str, faulted: bool, exec_: bool) -> dict:
    """one child run"""
    text = progs[pid]
    spec, acls = gen_spec(rng, text, cheap_only=(pid in ("big", "longline")))
    data = text.encode("utf-8")
    sched, scls = gen_schedule(rng, data)
    run = {"program": pid, "spec": spec, "argv": climodel.render(spec, rng), "acls": acls, "scls": scls}
    run.update(sched)
    if faulted:
        run["fault"] = gen_fault(rng, len(data))
    if exec_:
        run["exec"] = True
        if run.get("stall") and "first" in run["stall"]:
            run["stall"]["first"] += 2.0
    return run


def trivial(run: dict) -> bool:
    """the one boring case"""
    return (
        not run.get("fault")
        and not run["chunks"]
        and run["drain_sizes"] == [4096]
        and run["buffering"] == "pipe"
        and run["acls"].startswith("absent|inp:absent|out:absent")
    )


def run(args) -> int:
    """the check"""
    seed, tier = common.seed_and_tier(args)
    cfg = dict(TIERS[tier])
    timer = common.Timer()
    log(f"VERIF_SEED={seed} tier={tier} property=C19 repo={REPO}")
    progs = build_programs(seed, cfg["programs"])
    pids = list(progs)
    runs: list = []
    rng = stream(seed, "c19", "enum")
    if cfg["enumerate"]:
        for mask in range(512):
            names = [t for i, t in enumerate(NAMES) if mask >> i & 1]
            rng.shuffle(names)
            spec = {"enable": names or ["none"]}
            runs.append(
                {
                    "program": "probe",
                    "spec": spec,
                    "argv": climodel.render(spec, rng),
                    "acls": f"enum:{mask}",
                    "scls": "one-block/drain4096/random/pipe",
                    "chunks": [],
                    "drain_seed": 0,
                    "drain_sizes": [4096],
                    "drain_policy": "random",
                    "buffering": "pipe",
                    "small_pipes": True,
                }
            )
    # keyword combinations, systematically, on the probe program: default / all together with every single trait
    # and every pair of traits, in seeded order (the union must be taken whatever the order)
    if cfg["enumerate"]:
        import itertools

        krng = stream(seed, "c19", "enum-kw")
        combos = []
        for k in (1, 2):
            for sub in itertools.combinations(NAMES, k):
                combos.append(["default"] + list(sub))
        for x in NAMES:
            combos.append(["all", x])
        combos.append(["default", "all"])
        for toks in combos:
            toks = list(toks)
            krng.shuffle(toks)
            spec = {"enable": toks}
            runs.append(
                {
                    "program": "probe",
                    "spec": spec,
                    "argv": climodel.render(spec, krng),
                    "acls": "enum-kw",
                    "scls": "one-block/drain4096/random/pipe",
                    "chunks": [],
                    "drain_seed": 0,
                    "drain_sizes": [4096],
                    "drain_policy": "random",
                    "buffering": "pipe",
                    "small_pipes": True,
                }
            )
    # option-parser conventions, systematically, on the probe: every option abbreviated (shortest, a middle and the
    # longest proper prefix) and every option given twice with the same value; judged leniently (model: §3.2)
    if cfg["enumerate"]:
        srng = stream(seed, "c19", "enum-sp")
        ptext = progs["probe"]
        pheads, _ = workload._heads_and_bodies(ptext)  # pylint: disable=protected-access
        ppreds = workload.predicates_of(ptext)
        pin = [q for q in ppreds if q not in pheads][:3] or ppreds[:1]
        pout = [q for q in ppreds if q in pheads][:2] or ppreds[:1]
        base = {
            "enable": ["default", "duplication"],
            "inp": ",".join(f"{n}/{a}" for n, a in pin),
            "out": ", ".join(f"{n}/{a}" for n, a in pout),
            "log": "warning",
        }
        specs = []
        for key in ("enable", "inp", "out", "log"):
            ab = climodel.abbreviations(key)
            for short in sorted({ab[0], ab[len(ab) // 2], ab[-1]}):
                specs.append({**base, "sp": {"abbrev": {key: short}}})
            specs.append({**base, "sp": {"repeat": [key]}})
            specs.append({key: base[key], "sp": {"repeat": [key]}})
        specs.append({**base, "sp": {"abbrev": {k: climodel.abbreviations(k)[0] for k in base}}})
        specs.append({**base, "sp": {"repeat": list(base)}})
        specs.append({"enable": ["math"], "inp": "NOVALUE", "out": "NOVALUE", "sp": {"repeat": ["inp", "out"]}})
        for spec in specs:
            runs.append(
                {
                    "program": "probe",
                    "spec": spec,
                    "argv": climodel.render(spec, srng),
                    "acls": "enum-sp",
                    "scls": "one-block/drain4096/random/pipe",
                    "chunks": [],
                    "drain_seed": 0,
                    "drain_sizes": [4096],
                    "drain_policy": "random",
                    "buffering": "pipe",
                    "small_pipes": True,
                }
            )
    # predicate-option states, systematically: {absent, auto, no value, empty, list} x the same for the other option,
    # on the probe and on two small programs whose result depends on what is declared input / output
    if cfg["enumerate"]:
        prng = stream(seed, "c19", "enum-io")
        for pid in ("probe", "iosens1", "iosens2"):
            text = progs[pid]
            heads, bodies = workload._heads_and_bodies(text)  # pylint: disable=protected-access
            preds = workload.predicates_of(text)
            ins = [p for p in preds if p not in heads][:3] or preds[:1]
            outs = [p for p in preds if p in heads][:2] or preds[:1]
            lists = {"inp": ",".join(f"{n}/{a}" for n, a in ins), "out": ", ".join(f"{n}/{a}" for n, a in outs)}
            for si in ("ABSENT", "auto", "NOVALUE", "", "LIST"):
                for so in ("ABSENT", "auto", "NOVALUE", "", "LIST"):
                    spec = {}
                    if si != "ABSENT":
                        spec["inp"] = lists["inp"] if si == "LIST" else si
                    if so != "ABSENT":
                        spec["out"] = lists["out"] if so == "LIST" else so
                    if pid == "probe" and prng.random() < 0.5:
                        spec["enable"] = ["all"]
                    runs.append(
                        {
                            "program": pid,
                            "spec": spec,
                            "argv": climodel.render(spec, prng),
                            "acls": "enum-io",
                            "scls": "one-block/drain4096/random/pipe",
                            "chunks": [],
                            "drain_seed": 0,
                            "drain_sizes": [4096],
                            "drain_policy": "random",
                            "buffering": "pipe",
                            "small_pipes": True,
                        }
                    )
    rng = stream(seed, "c19", "sampled")
    weights = [6 if p == "probe" else (1 if p in ("big", "longline") else 3) for p in pids]
    for _ in range(cfg["sampled"]):
        runs.append(make_run(rng, progs, rng.choices(pids, weights)[0], False, False))
    rng = stream(seed, "c19", "faulted")
    for _ in range(cfg["faulted"]):
        runs.append(make_run(rng, progs, rng.choices(pids, weights)[0], True, False))
    rng = stream(seed, "c19", "exec")
    for _ in range(cfg["exec"]):
        runs.append(make_run(rng, progs, rng.choices(pids, weights)[0], rng.random() < 0.25, True))
    # distribute over worker worlds (the world of a run is a pure function of its index)
    nw = cfg["workers"]
    jobs = []
    for w in range(nw):
        wr = stream(seed, "c19", "world", w)
        world = {
            "H": 0 if w == 0 else wr.randrange(1, 2**32),
            "A": 0 if w == 0 else wr.randrange(2**64),
            "D": 5_000_000 if w == 0 else wr.randrange(10**6, 9 * 10**6),
            "R": wr.randrange(2**31),
            "G": "on",
        }
        mine = [r for k, r in enumerate(runs) if k % nw == w]
        jobs.append({"seed": seed, "module": "sim.cliworker", "world": world, "programs": progs, "runs": mine, "wall_s": 6000})
    pool = Pool("c19")
    violations: list = []
    try:
        res = pool.run(jobs)
        check_results(res)
        stats = {
            "verdicts": {},
            "arg_classes": {},
            "sched_classes": {},
            "faults_fired": {},
            "exec_runs": 0,
            "back_pressure_runs": 0,
            "chunks_written": 0,
            "rejected": 0,
            "lenient_rejected": 0,
        }
        distinct = set()
        bad = []
        enum_out: dict = {}
        for job, r in zip(jobs, res):
            evs = [e for e in r["events"] if e.get("op") == "run"]
            if len(evs) != len(job["runs"]):
                raise HarnessError("cliworker event count mismatch")
            for rn, ev in zip(job["runs"], evs):
                v = ev["verdict"]
                stats["verdicts"][v] = stats["verdicts"].get(v, 0) + 1
                ac = rn["acls"].split("|")[0] if not rn["acls"].startswith("enum:") else "enum"
                stats["arg_classes"][ac] = stats["arg_classes"].get(ac, 0) + 1
                sc = rn["scls"].split("/")[0]
                stats["sched_classes"][sc] = stats["sched_classes"].get(sc, 0) + 1
                if rn.get("fault"):
                    k = rn["fault"]["kind"]
                    fired = ev["probes"].get("epipe_closed") if k == "close_stdout" else True
                    stats["faults_fired"].setdefault(k, {"configured": 0, "fired": 0})
                    stats["faults_fired"][k]["configured"] += 1
                    stats["faults_fired"][k]["fired"] += 1 if fired else 0
                if rn.get("stall"):
                    k = "stall-" + next(iter(rn["stall"]))
                    stats["faults_fired"].setdefault(k, {"configured": 0, "fired": 0})
                    stats["faults_fired"][k]["configured"] += 1
                    stats["faults_fired"][k]["fired"] += 1 if (ev["probes"].get("stalled") or k == "stall-out") else 0
                if rn.get("exec"):
                    stats["exec_runs"] += 1
                if ev["probes"].get("full_seen"):
                    stats["back_pressure_runs"] += 1
                stats["chunks_written"] += ev["probes"].get("chunks_written", 0)
                if ev["detail"] == "rejected":
                    stats["rejected"] += 1
                if ev["detail"].startswith("undocumented"):
                    stats["lenient_rejected"] += 1
                if rn["acls"].startswith("enum:"):
                    enum_out[int(rn["acls"][5:])] = ev["out_sha"]
                if not trivial(rn) and progs[rn["program"]].strip():
                    distinct.add(json.dumps([rn["program"], rn["argv"], rn["scls"], rn.get("fault"), rn["chunks"][:8]]))
                if v == "violation:does-not-terminate":
                    bad.append((job, rn, ev))
                    continue
                if v.startswith("harness"):
                    raise HarnessError(f"C19 child: {v} argv={rn['argv']} program={rn['program']} detail={ev.get('detail')} stderr={ev.get('stderr_tail')}")
                if v.startswith("violation"):
                    bad.append((job, rn, ev))
        seen_kinds = set()
        for job, rn, ev in bad:
            key = (ev["verdict"], rn["program"], rn["acls"].split("|")[0])
            if key in seen_kinds or len(seen_kinds) >= 3:
                continue  # one replay per distinct (verdict, program, option class); at most three
            seen_kinds.add(key)
            doc = minimise(pool, seed, job, rn, ev, progs)
            doc["same_verdict_in_this_run"] = sum(1 for _, _, e in bad if e["verdict"] == ev["verdict"])
            violations.append({"replay": common.write_replay("C19", seed, len(violations), doc), "kind": ev["verdict"]})
        wall = timer.wall()
        sample = next((r for r in runs if r.get("fault")), runs[-1])
        coverage = {
            "evaluations": len(runs),
            "distinct_nontrivial": len(distinct),
            "rule": "one evaluation = one `ngo` child process between simulator-owned pipes, judged against the reference model; "
            "distinct & non-trivial = distinct (program, argv, schedule class, fault, chunk-vector prefix) other than "
            "'no options, one block, unbounded drain, no fault', on non-empty input",
            "samples": [
                {k: sample[k] for k in ("program", "argv", "chunks", "drain_sizes", "drain_policy", "buffering") if k in sample}
                | {"fault": sample.get("fault"), "stdin_prefix": progs[sample["program"]][:200]}
            ],
            "verdicts": stats["verdicts"],
            "argument_classes": stats["arg_classes"],
            "stdin_chunk_classes": stats["sched_classes"],
            "stdin_chunks_written": stats["chunks_written"],
            "faults": stats["faults_fired"],
            "runs_with_full_output_pipe_seen(back-pressure, timing-dependent probe)": stats["back_pressure_runs"],
            "exec_tier_runs(real `python -m ngo` under the same pipes)": stats["exec_runs"],
            "rejected_as_modelled": stats["rejected"],
            "undocumented_spellings_rejected": stats["lenient_rejected"],
            "enumeration_of_512_trait_subsets": {
                "runs": len(enum_out),
                "distinct_stdout_among_512": len(set(enum_out.values())),
                "note": "the probe program is sensitive to each of the nine traits alone and in the all-but-one context",
            },
            "programs": len(progs),
            "program_sizes_bytes": {k: len(v.encode("utf-8")) for k, v in progs.items()},
            "worker_worlds": nw,
            "runs_per_hour": int(len(runs) / max(wall, 1e-9) * 3600),
            "real_vs_stub": {
                "ngo.__main__, argparse wiring, optimize": "real (working tree)",
                "CPython text I/O stack, kernel pipes, /dev/full": "real",
                "producer and consumers": "simulator",
                "interpreter start-up": "emulated by fork from a pristine parent; real exec in the exec tier",
            },
        }
        common.write_evidence(
            "C19",
            tier,
            seed,
            "exploration",
            coverage,
            wall,
            len(violations),
            [
                "the reference model is written from the documentation; the expected bytes come from optimize through the API",
                "exit status and stderr are not judged under injected stream faults",
                "upper-case tokens may be rejected or mean their lower-case form",
            ],
        )
        log(f"C19: runs={len(runs)} verdicts={stats['verdicts']} distinct512={len(set(enum_out.values()))} wall={wall:.0f}s")
        return common.finish("C19", violations, [])
    finally:
        pool.close()


def _one(pool, seed, world, progs, rn):
    job = {"seed": seed, "module": "sim.cliworker", "world": world, "programs": {rn["program"]: progs[rn["program"]]}, "runs": [rn], "wall_s": 900}
    r = pool.run([job])[0]
    evs = [e for e in r["events"] if e.get("op") == "run"]
    return evs[0] if r["status"] == "ok" and evs else None


def minimise(pool, seed, job, rn, ev, progs) -> dict:
    """shrink schedule, world, program, options while the same violation class persists"""
    from sim.minimize import ddmin

    import time as _time

    kind = ev["verdict"]
    world = dict(job["world"])
    rn = dict(rn)
    progs = dict(progs)
    probes = 0
    give_up = _time.time() + 150  # wall budget of the minimiser only; never enters a simulated decision

    def same(r, w=None, p=None):
        nonlocal probes
        if _time.time() > give_up:
            return False
        probes += 1
        e = _one(pool, seed, w or world, p or progs, r)
        return e is not None and e["verdict"] == kind

    doc = {"property": "C19", "kind": kind, "seed": seed, "minimised": False}
    try:
        if same(rn):
            simple = dict(rn, chunks=[], drain_sizes=[4096], drain_policy="random", buffering="pipe", small_pipes=True, stall=None)
            if same(simple):
                rn = simple
            else:
                for k, v in (("stall", None), ("chunks", []), ("drain_sizes", [4096]), ("buffering", "pipe"), ("drain_policy", "random")):
                    c = dict(rn)
                    c[k] = v
                    if same(c):
                        rn = c
            if rn.get("exec"):
                c = dict(rn)
                c.pop("exec")
                if same(c):
                    rn = c
            pw = {"H": 0, "A": 0, "D": 5_000_000, "R": 0, "G": "on"}
            if same(rn, w=pw):
                world = pw
            # options: drop one at a time
            spec = dict(rn["spec"])
            for key in ("log", "inp", "out", "enable"):
                if key in spec:
                    s2 = {k: v for k, v in spec.items() if k != key}
                    c = dict(rn, spec=s2, argv=climodel.render(s2, stream(seed, "min")))
                    if same(c):
                        spec, rn = s2, c
            if spec.get("enable") and len(spec["enable"]) > 1:
                for tok in list(spec["enable"]):
                    if len(spec["enable"]) <= 1:
                        break
                    s2 = dict(spec, enable=[t for t in spec["enable"] if t != tok])
                    c = dict(rn, spec=s2, argv=climodel.render(s2, stream(seed, "min")))
                    if s2["enable"] and same(c):
                        spec, rn = s2, c
            # program statements
            text = progs[rn["program"]]
            try:
                stmts = workload.statements(text)
            except Exception:  # pylint: disable=broad-exception-caught
                stmts = []
            if len(stmts) > 1 and not rn["chunks"]:

                def test(cands):
                    # all candidates of one ddmin round in parallel, bounded total work
                    nonlocal probes
                    if probes > 250 or _time.time() > give_up:
                        return [False] * len(cands)
                    cands = list(cands)
                    probes += len(cands)
                    jobs = [
                        {"seed": seed, "module": "sim.cliworker", "world": world, "programs": {rn["program"]: "\n".join(c) + "\n"}, "runs": [rn], "wall_s": 900}
                        for c in cands
                    ]
                    out = []
                    for r in pool.run(jobs):
                        evs = [e for e in r["events"] if e.get("op") == "run"]
                        out.append(bool(r["status"] == "ok" and evs and evs[0]["verdict"] == kind))
                    return out

                if test([stmts])[0]:
                    stmts = ddmin(stmts, test)
                    progs = {rn["program"]: "\n".join(stmts) + "\n"}
            doc["minimised"] = True
        else:
            doc["note"] = "did not reproduce in a fresh parent"
    except Exception as exc:  # pylint: disable=broad-exception-caught
        doc["minimiser_error"] = repr(exc)
    final = _one(pool, seed, world, progs, rn)
    doc.update(
        {
            "world": world,
            "run": rn,
            "stdin": progs[rn["program"]],
            "observed": final if final is not None else ev,
            "probes": probes,
        }
    )
    return doc


def replay(path: str) -> int:
    """re-execute a replay file in a fresh parent"""
    doc = json.load(open(path, encoding="utf-8"))
    pool = Pool("c19r")
    try:
        ev = _one(pool, doc.get("seed", 0), doc["world"], {doc["run"]["program"]: doc["stdin"]}, doc["run"])
    finally:
        pool.close()
    if ev is None:
        print("HARNESS-ERROR: replay worker failed")
        return 2
    print(json.dumps({k: ev.get(k) for k in ("argv", "exit", "out_sha", "out_len", "verdict", "detail")}, indent=1))
    if ev["verdict"].startswith("violation"):
        print(f"VIOLATION property=C19 replay={path}")
        return 1
    print("replay did not reproduce the recorded violation")
    return 0
