"""Shared by the three checks: tier/seed handling, evidence files, known findings, exit protocol."""
from __future__ import annotations

import json
import os
import re
import sys
import time

from sim.driver import VERIF

EVIDENCE_DIR = os.environ.get("VERIF_EVIDENCE_DIR") or os.path.join(VERIF, "evidence")
REPLAY_DIR = os.environ.get("VERIF_REPLAY_DIR") or os.path.join(VERIF, "replays")
KNOWN = os.path.join(VERIF, "known_findings.json")


def seed_and_tier(args) -> tuple[int, str]:
    """command line beats environment beats default"""
    seed = args.seed if args.seed is not None else int(os.environ.get("VERIF_SEED", "20260925"))
    tier = args.tier or os.environ.get("VERIF_TIER") or "quick"
    if tier not in ("quick", "thorough"):
        tier = "quick"
    return seed, tier


def write_evidence(pid: str, tier: str, seed: int, level: str, coverage: dict, wall: float, violations: int, assumptions):
    """rewrite /verif/evidence/<id>.json"""
    os.makedirs(EVIDENCE_DIR, exist_ok=True)
    ev = {
        "property_id": pid,
        "tier": tier,
        "seed": int(seed),
        "level": level,
        "coverage": coverage,
        "assumptions": list(assumptions),
        "wall_s": round(wall, 2),
        "violations": int(violations),
    }
    path = os.path.join(EVIDENCE_DIR, f"{pid}.json")
    tmp = path + ".tmp"
    with open(tmp, "w", encoding="utf-8") as f:
        json.dump(ev, f, indent=1, sort_keys=True, ensure_ascii=False)
        f.write("\n")
    os.replace(tmp, path)
    return path


def write_replay(pid: str, seed: int, n: int, doc: dict) -> str:
    """write /verif/replays/<id>-<seed>-<n>.json"""
    os.makedirs(REPLAY_DIR, exist_ok=True)
    path = os.path.join(REPLAY_DIR, f"{pid}-{seed}-{n}.json")
    with open(path, "w", encoding="utf-8") as f:
        json.dump(doc, f, indent=1, ensure_ascii=False)
        f.write("\n")
    return path


def load_known() -> list[dict]:
    """known findings (never written at run time)"""
    if not os.path.exists(KNOWN):
        return []
    doc = json.load(open(KNOWN, encoding="utf-8"))
    out = [dict(f) for f in doc.get("findings", []) if f.get("status") == "known"]
    for f in out:
        f["canonical"] = canonical(f["program"])
    return out


_TOKEN = re.compile(r'"(?:[^"\\]|\\.)*"|#?[A-Za-z_][A-Za-z0-9_\']*|\d+|\S')
_KEYWORDS = {
    "not",
    "#false",
    "#true",
    "#sum",
    "#sum+",
    "#count",
    "#min",
    "#max",
    "#show",
    "#minimize",
    "#maximize",
    "#inf",
    "#sup",
    "#program",
    "#external",
    "#const",
    "#project",
    "#defined",
    "#edge",
    "#heuristic",
    "#theory",
    "base",
}


def canonical(text: str) -> str:
    """predicates/constants and variables renamed in order of first occurrence, blanks dropped:
    the renamed-apart copy of a program inside a composition is the same finding"""
    names: dict[str, str] = {}
    out = []
    for tok in _TOKEN.findall(text):
        if tok in _KEYWORDS or tok.startswith("#"):
            out.append(tok)
        elif re.match(r"[A-Z]", tok) or (tok.startswith("_") and len(tok) > 1 and tok.lstrip("_")[:1].isupper()):
            out.append(names.setdefault(tok, f"V{len(names)}"))
        elif re.match(r"[a-z_]", tok) and tok != "_":
            out.append(names.setdefault(tok, f"n{len(names)}"))
        else:
            out.append(tok)
    return " ".join(out)


class Timer:
    """wall clock of the harness only: never enters a simulated decision"""

    def __init__(self):
        self.t0 = time.time()

    def wall(self) -> float:
        """seconds since start"""
        return time.time() - self.t0


def finish(pid: str, violations: list[dict], known_lines: list[str]) -> int:
    """print protocol lines; exit status"""
    for line in known_lines:
        print(f"KNOWN-FINDING: property={pid} {line}")
    for v in violations:
        print(f"VIOLATION property={pid} replay={v['replay']}")
    sys.stdout.flush()
    return 1 if violations else 0
