"""Oracles (DESIGN §2.5)."""
from __future__ import annotations


def refinement(runs: dict, plan: dict, faults) -> dict:
    """placeholder, replaced below"""
    return {"verdict": "skipped"}
