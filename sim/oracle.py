"""Oracles (DESIGN §2.5): refinement of the math fallback under persistent system-level sympy faults."""
from __future__ import annotations

from sim.prng import derive


def key_faulted(plan: dict, key) -> bool:
    """same decision function as sim.faults.SympyFaults.key_faulted"""
    rate = plan.get("groebner", 0)
    if not rate or key is None:
        return False
    return derive(plan["seed"], "groebner", *key) % 10000 < rate * 10000


def refinement(runs: dict, plan: dict, faults) -> dict:
    """With only `math` enabled the loop body rewrites every statement independently and keeps
    positions.  The fault-free run gives per position the chain s0 -> s1 -> ... -> sk of loop
    states and per (iteration, position) the key simplify_equalities saw.  Under persistent
    failures of groebner the only lawful final loop state is, per position, the first chain
    member whose key is faulted (iteration 0: the exlined form, i.e. what `--enable none`
    gives), else sk.  Returns {"verdict": ok | violation | blind | n/a, ...}."""
    free, fault, none = runs["free"], runs["fault"], runs.get("none")
    if plan.get("solve"):
        return {"verdict": "n/a", "why": "per-variable faults: only the weak oracle applies"}
    for name, r in (("free", free), ("fault", fault), ("none", none)):
        if r is None or not r["res"]["outcome"].startswith("OK"):
            return {"verdict": "n/a", "why": f"{name} run did not return: {None if r is None else r['res']['outcome']}"}
    if faults is None or faults.blind:
        return {"verdict": "blind", "why": "sympy seam not found (ngo.math_simplification.groebner/solve/Goebner)"}
    if not free["states"] or free["final"] is None or fault["final"] is None or none["final"] is None:
        return {"verdict": "blind", "why": "outer loop not traced"}
    n = len(free["states"][0])
    for r in (free, fault, none):
        if any(len(s) != n for s in r["states"]) or len(r["final"]) != n:
            return {"verdict": "blind", "why": "number of statements changes inside the loop"}
    # keys per (iteration, position)
    per_iter: dict = {}
    for it, key, _f, called in free["keys"]:
        per_iter.setdefault(it, []).append((key, called))
    keymap: dict = {}
    for it, lst in per_iter.items():
        if it < 0 or it >= len(free["types"]):
            return {"verdict": "blind", "why": "math was called outside a traced iteration"}
        pos = [p for p, t in enumerate(free["types"][it]) if t in ("Rule", "Minimize")]
        if len(pos) != len(lst):
            return {"verdict": "blind", "why": "calls of simplify_equalities do not match the rule statements"}
        for p, kc in zip(pos, lst):
            keymap[(it, p)] = kc
    expected = []
    hit = 0
    for p in range(n):
        exp = free["final"][p]
        for it in range(len(free["states"])):
            kc = keymap.get((it, p))
            if kc is not None and kc[1] and key_faulted(plan, tuple(kc[0]) if kc[0] is not None else None):
                exp = none["final"][p] if it == 0 else free["states"][it][p]
                hit += 1
                break
        expected.append(exp)
    if expected != fault["final"]:
        p = next(i for i in range(n) if expected[i] != fault["final"][i])
        return {
            "verdict": "violation",
            "position": p,
            "expected": expected[p],
            "got": fault["final"][p],
            "fault_free": free["final"][p],
            "positions_hit": hit,
        }
    return {"verdict": "ok", "positions_hit": hit, "changed_by_fault": sum(1 for a, b in zip(free["final"], fault["final"]) if a != b)}
