"""Minimisation and replay (DESIGN §2.7).

Every probe is a fresh worker interpreter; candidates of one ddmin round run in parallel.
"""
from __future__ import annotations

import copy

from sim import workload
from sim.driver import log

IGNORED = ("ABORTED", "DIVERGED:steps", "DIVERGED:cpu")
PRISTINE = {"H": 0, "A": 0, "D": 5_000_000, "Dcount": 0, "R": 0, "G": "on", "Lg": "none"}
MAX_PROBES = 400


def ddmin(items: list, test_many, keep_nonempty=True) -> list:
    """greedy delta debugging; test_many(list of candidate lists) -> list of bool"""
    n = 2
    items = list(items)
    while len(items) >= (2 if keep_nonempty else 1):
        size = max(1, len(items) // n)
        chunks = [(i, min(i + size, len(items))) for i in range(0, len(items), size)]
        cands = [items[:a] + items[b:] for a, b in chunks]
        cands = [c for c in cands if (c or not keep_nonempty)]
        if not cands:
            break
        verdicts = test_many(cands)
        hit = next((c for c, v in zip(cands, verdicts) if v), None)
        if hit is not None:
            items = hit
            n = max(n - 1, 2)
        else:
            if size == 1:
                break
            n = min(n * 2, len(items))
    return items


class Prober:
    """runs (world, targets, ops) jobs and returns the last op's event"""

    def __init__(self, pool, seed):
        self.pool = pool
        self.seed = seed
        self.probes = 0

    def run_many(self, specs: list) -> list:
        """spec = (world, targets, ops) -> last real event or None"""
        self.probes += len(specs)
        jobs = [
            {"seed": self.seed, "world": w, "targets": t, "ops": o, "wall_s": 900, "monitor": {"steps": True, "loop": True}}
            for w, t, o in specs
        ]
        res = self.pool.run(jobs)
        out = []
        for r in res:
            evs = [e for e in r["events"] if e.get("op") not in ("world", "end")]
            if r["status"] != "ok" or not evs:
                out.append(None)
            else:
                out.append(evs[-1])
        return out


def _oc(ev, call=1):
    if ev is None:
        return None
    oc = ev.get("outcome" if call == 1 else "outcome2")
    if oc is None or oc in IGNORED or oc.startswith("HARNESS") or oc.startswith("SKIPPED"):
        return None
    return oc


def _single(tid, tgt):
    return {tid: tgt}


def c17_divergence(pool, seed, tid, bt, table) -> dict:
    """minimise a target with more than one outcome into a replay document"""
    outcomes = table.outcomes[tid]
    ref = None
    for oc, wits in outcomes.items():
        if any(w.get("pristine") for w in wits):
            ref = oc
    if ref is None:
        ref = max(outcomes, key=lambda o: len(outcomes[o]))
    dev_oc = next(o for o in outcomes if o != ref)
    wit = outcomes[dev_oc][0]
    job = bt["jobs"][wit["w"]]
    world = dict(job["world"])
    targets = bt["targets"]
    tgt = dict(targets[tid])
    ops = job["ops"][: wit["i"] + 1]
    call = wit["call"]
    pr = Prober(pool, seed)
    doc = {
        "property": "C17",
        "kind": "outcome-divergence",
        "seed": seed,
        "found": {"batch": bt["b"], "world_index": wit["w"], "op_index": wit["i"], "call": call, "outcomes_seen": {o: len(w) for o, w in outcomes.items()}},
        "minimised": False,
    }
    refworld = dict(PRISTINE)

    def deviates_many(specs):
        """specs: (world, targets, ops, refprogram targets) -> bool list; each costs two probes"""
        flat = []
        for w, t, o, reft in specs:
            flat.append((w, t, o))
            flat.append((refworld, reft, [{"op": "opt", "t": tid}]))
        evs = pr.run_many(flat)
        out = []
        for k in range(len(specs)):
            b = _oc(evs[2 * k + 1])
            mine = [x for x in (_oc(evs[2 * k], 1), _oc(evs[2 * k], 2)) if x is not None]
            out.append(b is not None and any(x != b for x in mine))
        return out

    try:
        # 0. reproduce as found
        if not deviates_many([(world, targets, ops, _single(tid, tgt))])[0]:
            doc["note"] = "the witness did not reproduce when its history was re-executed: the divergence does not depend on (world, history) alone"
            doc["witnesses"] = [
                {"world": world, "targets": targets, "ops": ops, "expect_target": tid},
                {"world": refworld, "targets": _single(tid, tgt), "ops": [{"op": "opt", "t": tid}], "expect_target": tid},
            ]
            doc["outcomes"] = {"witness": dev_oc, "reference": ref}
            doc["texts"] = {o: table.texts.get(o) for o in (dev_oc, ref)}
            doc["repeat"] = 8
            return doc
        # 1. history
        last = ops[-1]
        if deviates_many([(world, _single(tid, tgt), [last], _single(tid, tgt))])[0]:
            ops = [last]
            doc["history_needed"] = False
            plain = [{"op": "opt", "t": tid}]
            if last["op"] != "opt" and deviates_many([(world, _single(tid, tgt), plain, _single(tid, tgt))])[0]:
                ops = plain
        else:
            doc["history_needed"] = True
            # keep resalt ops in place: they define the regime of the final call
            prefix = ops[:-1]

            def test_hist(cands):
                return deviates_many([(world, targets, c + [last], _single(tid, tgt)) for c in cands])

            prefix = ddmin(prefix, test_hist, keep_nonempty=False)
            ops = prefix + [last]
            if last["op"] != "opt":
                plain = ops[:-1] + [{"op": "opt", "t": tid}]
                if deviates_many([(world, targets, plain, _single(tid, tgt))])[0]:
                    ops = plain
        used = {o["t"] for o in ops if "t" in o}
        targets = {k: v for k, v in targets.items() if k in used}
        # 2. seam attribution: move the world towards the pristine one
        seam = []
        if world.get("A") is not None:
            for keys in (("H",), ("A",), ("D", "Dcount", "R"), ("G",), ("Lg",)):
                cand = dict(world)
                for k in keys:
                    cand[k] = PRISTINE[k]
                if cand == world:
                    continue
                if deviates_many([(cand, targets, ops, _single(tid, tgt))])[0]:
                    world = cand
                else:
                    seam.append("/".join(keys))
        doc["seam"] = seam

        # 3. program statements
        def with_text(text):
            t2 = dict(tgt)
            t2["text"] = text
            ts = dict(targets)
            ts[tid] = t2
            return ts, t2

        stmts = workload.statements(tgt["text"])

        def test_prog(cands):
            specs = []
            for c in cands:
                ts, t2 = with_text("\n".join(c) + "\n")
                specs.append((world, ts, ops, _single(tid, t2)))
            return deviates_many(specs)

        if len(stmts) > 1 and pr.probes < MAX_PROBES and test_prog([stmts])[0]:
            stmts = ddmin(stmts, test_prog)
            targets, tgt = with_text("\n".join(stmts) + "\n")
        # 4. traits off one by one, declarations towards auto / empty
        for i in range(9):
            if tgt["mask"] >> i & 1 and pr.probes < MAX_PROBES:
                t2 = dict(tgt)
                t2["mask"] = tgt["mask"] & ~(1 << i)
                ts = dict(targets)
                ts[tid] = t2
                if deviates_many([(world, ts, ops, _single(tid, t2))])[0]:
                    tgt, targets = t2, ts
        for inp, out in (("auto", "auto"), ([], [])):
            if (tgt["inp"], tgt["out"]) != (inp, out) and pr.probes < MAX_PROBES:
                t2 = dict(tgt)
                t2["inp"], t2["out"] = inp, out
                ts = dict(targets)
                ts[tid] = t2
                if deviates_many([(world, ts, ops, _single(tid, t2))])[0]:
                    tgt, targets = t2, ts
                    break
        doc["minimised"] = True
    except Exception as exc:  # pylint: disable=broad-exception-caught
        doc["minimiser_error"] = repr(exc)
    evs = pr.run_many([(world, targets, ops), (refworld, _single(tid, tgt), [{"op": "opt", "t": tid}])])
    doc["witnesses"] = [
        {"world": world, "targets": targets, "ops": ops, "expect_target": tid},
        {"world": refworld, "targets": _single(tid, tgt), "ops": [{"op": "opt", "t": tid}], "expect_target": tid},
    ]
    doc["program"] = tgt["text"]
    doc["traits"] = workload.mask_name(tgt["mask"])
    doc["outcomes"] = {"witness": [_oc(evs[0], 1), _oc(evs[0], 2)], "reference": _oc(evs[1])}
    doc["texts"] = {
        "witness": (evs[0] or {}).get("text") or (evs[0] or {}).get("text2"),
        "reference": (evs[1] or {}).get("text"),
    }
    # restate a divergence found under the salted hash in terms of real address layouts (nothing patched)
    doc["real_layout_witness"] = "this witness is a real-layout world" if world.get("A") is None else "none found"
    try:
        from sim.driver import have_setarch

        if world.get("A") is not None and len(ops) == 1 and have_setarch():
            specs = []
            for h in (world["H"], 1, 2, 3):
                for pad in (0, 1, 7, 64, 333, 1000):
                    w = {"H": h, "A": None, "pad": pad, "norandomize": True, "D": world["D"], "R": world["R"], "G": "on", "Lg": "none"}
                    specs.append((w, _single(tid, tgt), [{"op": "opt", "t": tid}]))
            revs = pr.run_many(specs)
            seen = {}
            for sp, e in zip(specs, revs):
                oc = _oc(e)
                if oc is not None:
                    seen.setdefault(oc, sp[0])
            if len(seen) > 1:
                doc["real_layout_witness"] = [{"world": w, "outcome": o} for o, w in list(seen.items())[:2]]
    except Exception as exc:  # pylint: disable=broad-exception-caught
        doc["real_layout_witness"] = "search failed: " + repr(exc)
    doc["probes"] = pr.probes
    log(f"C17 divergence minimised with {pr.probes} probes: {len(ops)} ops, {len(workload.statements(tgt['text']))} statements")
    return doc


def c17_argument(pool, seed, wit, bt) -> dict:
    """minimise an argument-modification witness"""
    job = bt["jobs"][wit["w"]]
    tid = wit["t"]
    tgt = dict(bt["targets"][tid])
    pr = Prober(pool, seed)
    last = job["ops"][wit["i"]]
    world = dict(job["world"])
    targets = bt["targets"]
    ops = job["ops"][: wit["i"] + 1]
    doc = {"property": "C17", "kind": "argument-modified", "seed": seed, "found": dict(wit), "minimised": False}

    def changed(ev):
        return ev is not None and ev.get("arg", "same") != "same" and ev.get("outcome") != "ABORTED"

    try:
        cands = [(dict(PRISTINE), _single(tid, tgt), [{"op": "opt", "t": tid}]), (dict(PRISTINE), _single(tid, tgt), [last]), (world, _single(tid, tgt), [last])]
        evs = pr.run_many(cands)
        hit = next((c for c, e in zip(cands, evs) if changed(e)), None)
        if hit is not None:
            world, targets, ops = hit
        else:
            prefix = ddmin(ops[:-1], lambda cs: [changed(e) for e in pr.run_many([(world, targets, c + [last]) for c in cs])], keep_nonempty=False)
            ops = prefix + [last]
            used = {o["t"] for o in ops if "t" in o}
            targets = {k: v for k, v in targets.items() if k in used}
        stmts = workload.statements(tgt["text"])

        def test_prog(cands):
            specs = []
            for c in cands:
                t2 = dict(tgt)
                t2["text"] = "\n".join(c) + "\n"
                ts = dict(targets)
                ts[tid] = t2
                specs.append((world, ts, ops))
            return [changed(e) for e in pr.run_many(specs)]

        if len(stmts) > 1 and test_prog([stmts])[0]:
            stmts = ddmin(stmts, test_prog)
            tgt["text"] = "\n".join(stmts) + "\n"
            targets = dict(targets)
            targets[tid] = tgt
        for i in range(9):
            if tgt["mask"] >> i & 1:
                t2 = dict(tgt)
                t2["mask"] = tgt["mask"] & ~(1 << i)
                ts = dict(targets)
                ts[tid] = t2
                if changed(pr.run_many([(world, ts, ops)])[0]):
                    tgt, targets = t2, ts
        doc["minimised"] = True
    except Exception as exc:  # pylint: disable=broad-exception-caught
        doc["minimiser_error"] = repr(exc)
    ev = pr.run_many([(world, targets, ops)])[0]
    doc["witnesses"] = [{"world": world, "targets": targets, "ops": ops, "expect_target": tid}]
    doc["program"] = tgt["text"]
    doc["traits"] = workload.mask_name(tgt["mask"])
    doc["detail"] = (ev or {}).get("arg")
    doc["probes"] = pr.probes
    return doc


def c17_canary(pool, seed, mm, tgt, table) -> dict:
    """unpinned CLI processes disagreed among themselves; try to restate in a pinned real-layout world"""
    from sim.driver import have_setarch

    doc = {
        "property": "C17",
        "kind": "canary-divergence",
        "seed": seed,
        "program": tgt["text"],
        "traits": workload.mask_name(tgt["mask"]),
        "cli_outputs": mm["outputs"],
        "argv": mm["argv"],
        "repeat": 32,
    }
    if have_setarch():
        pr = Prober(pool, seed)
        tid = mm["t"]
        specs = []
        for h in range(8):
            for pad in (0, 1, 7, 64):
                w = {"H": h, "A": None, "pad": pad, "norandomize": True, "D": 5_000_000, "R": 0, "G": "on", "Lg": "none"}
                specs.append((w, _single(tid, tgt), [{"op": "opt", "t": tid}]))
        evs = pr.run_many(specs)
        seen = {}
        for s, e in zip(specs, evs):
            oc = _oc(e)
            if oc is not None:
                seen.setdefault(oc, s)
        if len(seen) > 1:
            (o1, s1), (o2, s2) = list(seen.items())[:2]
            doc["kind"] = "outcome-divergence"
            doc["witnesses"] = [
                {"world": s1[0], "targets": s1[1], "ops": s1[2], "expect_target": tid},
                {"world": s2[0], "targets": s2[1], "ops": s2[2], "expect_target": tid},
            ]
            doc["outcomes"] = {"witness": [o1], "reference": o2}
            doc["real_layout_witness"] = "both witnesses are real-layout worlds (setarch -R)"
        else:
            doc["real_layout_witness"] = "not found in 32 pinned real-layout worlds; replay re-runs the unpinned CLI"
    return doc


def replay_c17(pool, doc) -> bool:
    """True iff the recorded violation class shows again"""
    import hashlib
    import subprocess

    from sim.driver import PYTHON, VERIF, base_env

    pr = Prober(pool, doc.get("seed", 0))
    kind = doc["kind"]
    if kind == "canary-divergence":
        outs = set()
        for _ in range(int(doc.get("repeat", 32))):
            env = base_env(None)
            r = subprocess.run([PYTHON, "-m", "ngo"] + doc["argv"], input=doc["program"].encode(), capture_output=True, env=env, cwd=VERIF, timeout=600, check=False)
            outs.add((r.returncode, hashlib.sha256(r.stdout).hexdigest()[:16]))
        print("distinct (status, stdout digest) over unpinned CLI runs:", sorted(outs))
        return len(outs) > 1
    repeat = int(doc.get("repeat", 1))
    for _ in range(repeat):
        specs = [(w["world"], w["targets"], w["ops"]) for w in doc["witnesses"]]
        evs = pr.run_many(specs)
        if kind == "argument-modified":
            ev = evs[0]
            print("argument fingerprint:", (ev or {}).get("arg"))
            if ev is not None and ev.get("arg", "same") != "same":
                return True
            continue
        seen = set()
        for w, ev in zip(doc["witnesses"], evs):
            ocs = [o for o in (_oc(ev, 1), _oc(ev, 2)) if o is not None]
            print("world", {k: v for k, v in w["world"].items()}, "ops", len(w["ops"]), "->", ocs)
            seen.update(ocs)
        if len(seen) > 1:
            return True
    return False


def clone(x):
    """deep copy helper"""
    return copy.deepcopy(x)
