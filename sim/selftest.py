"""Determinism self-test of the simulator itself (DESIGN §2.6).

What must replay: the complete event log of a worker - op, target, outcome digest,
iteration count, step count, *path digest*, fingerprint verdict, output texts.  Requiring
the path digest (not just the output) to repeat is what exposes a forgotten source of
nondeterminism long before it flips an output.

Per seed: the job is built twice (in this driver and in a second driver interpreter under
another PYTHONHASHSEED: the job JSON must be identical), executed twice at different worker
counts, ASLR on; logs must be byte-identical.  Plus: a real-layout world (A off, setarch -R)
repeats; the C19 child's byte streams repeat; a sympy-fault job repeats.
A mismatch is a harness error (exit 2), never a property verdict.
"""
from __future__ import annotations

import json
import os
import subprocess
import sys

from sim import c03, c17, c19, common, driver, workload
from sim.driver import PYTHON, VERIF, HarnessError, Pool, check_results, have_setarch, log
from sim.prng import stream


def build_jobs(seed: int) -> list:
    """a small but complete set of jobs for one seed"""
    base = workload.load_base()
    cfg = dict(c17.TIERS["thorough"])
    targets = c17.build_targets(seed, 0, 5, base)
    ref_steps = {t: 3000 for t in targets}
    jobs = []
    for w in (1, 2):
        world = c17.build_world(seed, 0, w)
        ops = c17.build_history(seed, 0, w, targets, ref_steps, cfg, True)
        jobs.append({"seed": seed, "world": world, "targets": targets, "ops": ops, "wall_s": 900})
    # sympy fault job
    rng = stream(seed, "selftest", "fault")
    mathy = [b for b in workload.load_safe() if b["src"] == "test_math_simplification.py"]
    ft = {}
    fops = []
    for k in range(4):
        b = rng.choice(mathy)
        ft[f"f{k}"] = {"text": b["text"], "inp": "auto", "out": "auto", "mask": c03.MATH if k % 2 == 0 else workload.ALL}
        plan = {"seed": rng.randrange(2**31), "groebner": rng.choice([0.3, 1.0]), "solve": 0 if k % 2 == 0 else 0.3}
        fops.append({"op": "opt_fault", "t": f"f{k}", "plan": plan, "refine": k % 2 == 0})
    jobs.append({"seed": seed, "world": c03.world_of(seed, 1), "targets": ft, "ops": fops, "use_faults": True, "wall_s": 900})
    # C19 job
    progs = {"probe": open(os.path.join(VERIF, "workload", "cli_probe.lp"), encoding="utf-8").read()}
    progs.update({k: v for k, v in c19.special_programs().items() if k not in ("big", "longline")})
    crng = stream(seed, "selftest", "cli")
    runs = [c19.make_run(crng, progs, crng.choice(list(progs)), k % 3 == 2, False) for k in range(6)]
    wr = stream(seed, "selftest", "cliworld")
    jobs.append(
        {
            "seed": seed,
            "module": "sim.cliworker",
            "world": {"H": wr.randrange(1, 2**32), "A": wr.randrange(2**64), "D": 5_000_000, "R": 1, "G": "on"},
            "programs": progs,
            "runs": runs,
            "wall_s": 900,
        }
    )
    return jobs


def normalise(events: list) -> str:
    """the replay-compared log: everything except timing-dependent probes"""
    out = []
    for e in events:
        e = dict(e)
        if "probes" in e:
            e["probes"] = {k: v for k, v in e["probes"].items() if k not in ("full_seen", "stalled")}
        e.pop("ngo", None)
        e.pop("timing_dependent", None)
        out.append(json.dumps(e, sort_keys=True))
    return "\n".join(out)


def run(args) -> int:
    """the self-test"""
    seed0, tier = common.seed_and_tier(args)
    nseeds = 8 if tier == "quick" else 64
    if os.environ.get("VERIF_SELFTEST_SEEDS"):
        nseeds = int(os.environ["VERIF_SELFTEST_SEEDS"])
    timer = common.Timer()
    seeds = [seed0 + k for k in range(nseeds)]
    if "--emit-jobs" in sys.argv:
        return 0
    all_jobs = {s: build_jobs(s) for s in seeds}
    # 1. job construction is independent of the driver's hash seed
    other = subprocess.run(
        [PYTHON, "-c", "import json,sys\nfrom sim import selftest\nprint(json.dumps({str(s): selftest.build_jobs(s) for s in json.loads(sys.argv[1])}, sort_keys=True))", json.dumps(seeds)],
        cwd=VERIF,
        env=dict(driver.base_env(4242), PYTHONPATH=VERIF),
        capture_output=True,
        timeout=900,
        check=False,
    )
    if other.returncode != 0:
        raise HarnessError("second driver failed: " + other.stderr.decode()[-2000:])
    mine = json.dumps({str(s): all_jobs[s] for s in seeds}, sort_keys=True)
    if mine != other.stdout.decode().strip():
        raise HarnessError("job construction depends on the driver's PYTHONHASHSEED")
    log(f"selftest: job construction identical under a second driver hash seed ({nseeds} seeds)")
    flat = [(s, k, j) for s in seeds for k, j in enumerate(all_jobs[s])]
    logs = []
    for rep, nproc in ((0, 16), (1, 4 if tier == "thorough" else 16)):
        driver.NPROC = nproc
        pool = Pool(f"self{rep}")
        try:
            res = pool.run([j for _, _, j in flat])
            check_results(res)
        finally:
            pool.close()
        logs.append([normalise(r["events"]) for r in res])
        log(f"selftest: repetition {rep} with {nproc} workers done ({timer.wall():.0f}s)")
    driver.NPROC = 16
    bad = 0
    for (s, k, j), a, b in zip(flat, logs[0], logs[1]):
        if a != b:
            bad += 1
            la, lb = a.split("\n"), b.split("\n")
            d = next((i for i, (x, y) in enumerate(zip(la, lb)) if x != y), min(len(la), len(lb)))
            print(f"SELFTEST-MISMATCH seed={s} job={k} module={j.get('module', 'sim.worker')} first differing event {d}:", file=sys.stderr)
            print("  run1:", la[d][:600] if d < len(la) else None, file=sys.stderr)
            print("  run2:", lb[d][:600] if d < len(lb) else None, file=sys.stderr)
    # 2. real layout repeats
    real = "unavailable"
    if have_setarch():
        base = workload.load_base()
        targets = c17.build_targets(seed0, 0, 6, base)
        ops = [{"op": "opt", "t": t} for t in targets]
        world = {"H": 11, "A": None, "pad": 7, "norandomize": True, "D": 5_000_000, "R": 0, "G": "on", "Lg": "none"}
        pool = Pool("selfreal")
        try:
            res = pool.run([{"seed": seed0, "world": world, "targets": targets, "ops": ops, "wall_s": 900} for _ in range(3)])
            check_results(res)
        finally:
            pool.close()
        ls = [normalise(r["events"]) for r in res]
        real = "repeats" if ls[0] == ls[1] == ls[2] else "DOES NOT REPEAT"
        if real != "repeats":
            bad += 1
            print("SELFTEST-MISMATCH real-layout world (setarch -R) does not repeat", file=sys.stderr)
    log(f"selftest: {len(flat)} jobs x 2 repetitions, mismatches={bad}, real-layout tier: {real}, wall={timer.wall():.0f}s")
    if bad:
        raise HarnessError(f"{bad} event logs did not replay")
    print(f"selftest ok: seeds={nseeds} jobs={len(flat)} real_layout={real}")
    return 0
