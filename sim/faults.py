"""Cooperative fault point at ngo's sympy seam (DESIGN §2.3).

`ngo.math_simplification.groebner` / `.solve` are module globals and
`Goebner.simplify_equalities` a class attribute; the simulator wraps them.  Nothing is
wrapped unless a fault plan is armed, and the wrappers are removed again afterwards.

Two fault kinds, kept apart because their lawful consequences differ:

* system-level (`groebner`): raised for a seeded subset of *keys* (key = texts of the
  literals math collected for the statement), persistent per key.  By design the whole
  statement is then kept.
* per-variable (`solve`): raised for a seeded subset of (key, variable) pairs.

Exception types are the ones sympy really raises at these places.
"""
from __future__ import annotations

from sim.prng import derive


def _exc_types():
    from sympy.polys.polyerrors import CoercionFailed, GeneratorsNeeded, PolynomialError

    return [NotImplementedError, PolynomialError, GeneratorsNeeded, CoercionFailed, ZeroDivisionError]


class SympyFaults:
    """arms / disarms the fault plan; counts what actually fired"""

    def __init__(self):
        import ngo.math_simplification as ms

        self.ms = ms
        self.blind = not (hasattr(ms, "groebner") and hasattr(ms, "solve") and hasattr(ms, "Goebner"))
        self.orig = None
        self.key = None
        self.plan = None
        self.fired: dict[str, int] = {}
        self.calls: dict[str, int] = {}
        self.keys_seen: list = []  # (key, faulted) in call order
        self.types = _exc_types()
        self.iter_of = lambda: -1

    def arm(self, plan: dict):
        """plan: {"seed": int, "groebner": rate, "solve": rate}"""
        if self.blind:
            return
        ms = self.ms
        self.plan = plan
        self.fired = {}
        self.calls = {}
        self.keys_seen = []
        self.orig = (ms.groebner, ms.solve, ms.Goebner.simplify_equalities)
        o_g, o_s, o_se = self.orig
        this = self

        def simplify_equalities(gself, *a, **kw):
            try:
                this.key = tuple(str(k) for k in gself.equalities.keys())
            except Exception:  # pylint: disable=broad-exception-caught
                this.key = None
            entry = [this.iter_of(), list(this.key) if this.key is not None else None, this.key_faulted(this.key), False]
            this.keys_seen.append(entry)
            before = this.calls.get("groebner", 0)
            try:
                return o_se(gself, *a, **kw)
            finally:
                entry[3] = this.calls.get("groebner", 0) > before
                this.key = None

        def groebner(*a, **kw):
            this.calls["groebner"] = this.calls.get("groebner", 0) + 1
            if this.key is not None and this.key_faulted(this.key):
                exc = this.types[derive(plan["seed"], "gtype", *this.key) % len(this.types)]
                name = "groebner:" + exc.__name__
                this.fired[name] = this.fired.get(name, 0) + 1
                raise exc("injected by simulator")
            return o_g(*a, **kw)

        def solve(expr, var, *a, **kw):
            this.calls["solve"] = this.calls.get("solve", 0) + 1
            rate = plan.get("solve", 0)
            if rate and this.key is not None:
                if derive(plan["seed"], "solve", str(var), *this.key) % 10000 < rate * 10000:
                    kind = plan.get("solve_kind", "raise")
                    if kind in ("empty", "double"):
                        # unusual but legal answers of a solver: no solution found / more than one solution
                        res = o_s(expr, var, *a, **kw)
                        name = "solve:" + kind
                        this.fired[name] = this.fired.get(name, 0) + 1
                        if kind == "empty" or not isinstance(res, list) or not res:
                            return []
                        return list(res) + [res[0] + 1]
                    exc = this.types[derive(plan["seed"], "stype", str(var), *this.key) % len(this.types)]
                    name = "solve:" + exc.__name__
                    this.fired[name] = this.fired.get(name, 0) + 1
                    raise exc("injected by simulator")
            return o_s(expr, var, *a, **kw)

        ms.groebner = groebner
        ms.solve = solve
        ms.Goebner.simplify_equalities = simplify_equalities

    def key_faulted(self, key) -> bool:
        """persistent per key"""
        rate = self.plan.get("groebner", 0) if self.plan else 0
        if not rate or key is None:
            return False
        return derive(self.plan["seed"], "groebner", *key) % 10000 < rate * 10000

    def disarm(self):
        """restore the real functions"""
        if self.orig is not None:
            ms = self.ms
            ms.groebner, ms.solve, ms.Goebner.simplify_equalities = self.orig
            self.orig = None
        self.plan = None
        self.key = None
