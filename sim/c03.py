"""C03 — optimize always returns (the schedule-, history- and fault-dependent part; DESIGN §3.3).

Carrier: a sweep of the committed workload (safe programs only) x trait configurations x
declaration modes in several worlds, under the liveness monitors (step cap, iteration cap,
repeated outer-loop state).  Fault injection: sympy failures at the math fallback seam
(persistent per key for groebner, per (key, variable) for solve) with the refinement oracle
for math-only configurations and the weak oracle (returns, no exception, no divergence)
otherwise; recovery after injected aborts; the command line tool terminates with status 0.
"""
from __future__ import annotations

import json

from sim import common, workload
from sim.driver import REPO, HarnessError, Pool, check_results, log
from sim.prng import stream

MATH = 1 << workload.TRAITS.index("math")
TIERS = {
    "quick": {"programs": 10**6, "comps": 60, "worlds": 8, "extra_masks": 2, "decl_frac": 0.3, "refine": 300, "weak": 300, "solve": 300, "recover": 200, "cli": 48, "two_worlds": False, "wide_masks": 3},
    "thorough": {"programs": 10**6, "comps": 400, "worlds": 24, "extra_masks": 12, "decl_frac": 1.0, "refine": 2500, "weak": 2500, "solve": 2500, "recover": 1500, "cli": 400, "two_worlds": True, "wide_masks": 14},
}
PRISTINE = {"H": 0, "A": 0, "D": 5_000_000, "Dcount": 0, "R": 0, "G": "on", "Lg": "none"}


def world_of(seed: int, w: int) -> dict:
    """world w; 0 is pristine"""
    if w == 0:
        return dict(PRISTINE)
    rng = stream(seed, "c03", "world", w)
    return {
        "H": rng.randrange(1, 2**32),
        "A": rng.randrange(2**64),
        "D": rng.randrange(10**6, 9 * 10**6),
        "Dcount": rng.choice([0, 1, 17]),
        "R": rng.randrange(2**31),
        "G": rng.choice(["on", "off", "collect"]),
        "Lg": rng.choice(["none", "debug", "critical"]),
    }


def build(seed: int, cfg: dict):
    """targets and per-world op lists"""
    rng = stream(seed, "c03", "sweep")
    safe = workload.load_safe()
    base = [b for b in safe if b["src"] != "extra"]
    extra = [b for b in safe if b["src"] == "extra"]
    progs = extra + (base if cfg["programs"] >= len(base) else rng.sample(base, cfg["programs"]))
    targets: dict = {}
    ops_by_world: dict = {w: [] for w in range(cfg["worlds"])}

    def add(text, inp, out, mask, origin, kind, op=None, worlds=None):
        tid = f"t{len(targets)}"
        targets[tid] = {"text": text, "inp": inp, "out": out, "mask": mask, "origin": origin, "kind": kind}
        ws = worlds if worlds is not None else ([0, 1 + rng.randrange(cfg["worlds"] - 1)] if cfg["two_worlds"] else [rng.randrange(cfg["worlds"])])
        for w in ws:
            o = dict(op) if op else {"op": "opt"}
            o["t"] = tid
            ops_by_world[w].append(o)
        return tid

    masks = [0, workload.DEFAULT, workload.ALL] + [1 << i for i in range(9)]
    for b in progs:
        ms = list(masks)
        for _ in range(cfg["extra_masks"]):
            ms.append(workload.ALL ^ (1 << rng.randrange(9)) if rng.random() < 0.4 else rng.randrange(512))
        for m in ms:
            add(b["text"], "auto", "auto", m, b["id"], "sweep")
        inp, out = workload.decl("outall", b["text"], rng)
        for m in (workload.DEFAULT, workload.ALL):
            add(b["text"], inp, out, m, b["id"], "sweep-decl:outall")
        inp, out = workload.decl("outsinks", b["text"], rng)
        for m in (workload.DEFAULT, workload.ALL):
            add(b["text"], inp, out, m, b["id"], "sweep-decl:outsinks")
        inp, out = workload.decl("inall", b["text"], rng)
        add(b["text"], inp, out, workload.DEFAULT, b["id"], "sweep-decl:inall")
        if rng.random() < cfg["decl_frac"]:
            for mode in ("explicit", "empty", "absent"):
                inp, out = workload.decl(mode, b["text"], rng)
                add(b["text"], inp, out, rng.choice([workload.DEFAULT, workload.ALL]), b["id"], "sweep-decl:" + mode)
    # widened variants (every atom argument doubled): default, all and seeded further trait sets
    for b in workload.load_wide():
        ms = [workload.DEFAULT, workload.ALL][: cfg["wide_masks"]]
        while len(ms) < cfg["wide_masks"]:
            ms.append(rng.choice([1 << rng.randrange(9), workload.ALL ^ (1 << rng.randrange(9)), rng.randrange(512)]))
        for k, m in enumerate(ms):
            inp, out = ("auto", "auto") if k % 4 == 0 else workload.decl(("outall", "outsinks", "inall")[k % 4 - 1], b["text"], rng)
            add(b["text"], inp, out, m, b["id"], "sweep-wide")
    # twin-joined variants (program + renamed copy + statements joining both bodies): two equally good
    # candidates wherever a pass looks for "the" at-most-one / min-max / sum predicate of a body
    for b in workload.load_twin() + workload.load_fat() + workload.load_twinagg() + workload.load_dir():
        ms = [workload.DEFAULT, workload.ALL][: cfg["wide_masks"]]
        while len(ms) < cfg["wide_masks"]:
            ms.append(rng.choice([1 << rng.randrange(9), workload.ALL ^ (1 << rng.randrange(9)), rng.randrange(512)]))
        for k, m in enumerate(ms):
            inp, out = ("auto", "auto") if k % 4 == 0 else workload.decl(("outall", "outsinks", "inall")[k % 4 - 1], b["text"], rng)
            add(b["text"], inp, out, m, b["id"], "sweep-" + b["src"])
    multi = [b for b in safe if b["text"].count(".") >= 2]
    n = 0
    guard = 0
    while n < cfg["comps"] and guard < 20 * cfg["comps"]:
        guard += 1
        picks = rng.sample(multi, rng.choice([2, 2, 3, 4]))
        text = workload.compose([p["text"] for p in picks])
        if text is None:
            continue
        n += 1
        origin = "+".join(p["id"] for p in picks)
        for m in (workload.DEFAULT, workload.ALL):
            add(text, "auto", "auto", m, origin, "sweep-comp")
    # fault plans
    frng = stream(seed, "c03", "faults")
    mathy = [b for b in safe if any(c in b["text"] for c in "=<>+*") or "#" in b["text"]]
    mathy += [b for b in safe if b["src"] == "test_math_simplification.py"] * 4
    for k in range(cfg["refine"]):
        b = frng.choice(mathy)
        plan = {"seed": frng.randrange(2**31), "groebner": frng.choice([0.05, 0.3, 0.3, 1.0]), "solve": 0}
        add(b["text"], "auto", "auto", MATH, b["id"], "fault-refine", {"op": "opt_fault", "plan": plan, "refine": True})
    for k in range(cfg["weak"]):
        b = frng.choice(mathy)
        plan = {"seed": frng.randrange(2**31), "groebner": frng.choice([0.05, 0.3, 1.0]), "solve": frng.choice([0, 0, 0.3])}
        mask = frng.choice([workload.DEFAULT, workload.ALL, frng.randrange(512) | MATH])
        add(b["text"], "auto", "auto", mask, b["id"], "fault-weak", {"op": "opt_fault", "plan": plan, "refine": False})
    for k in range(cfg["solve"]):
        b = frng.choice(mathy)
        plan = {"seed": frng.randrange(2**31), "groebner": 0, "solve": frng.choice([0.05, 0.3, 1.0]), "solve_kind": frng.choice(["raise", "raise", "empty", "double"])}
        mask = frng.choice([MATH, MATH, workload.DEFAULT, workload.ALL])
        add(b["text"], "auto", "auto", mask, b["id"], "fault-solve", {"op": "opt_fault", "plan": plan, "refine": False})
    # recovery after an aborted call: abort, then the same call again
    rrng = stream(seed, "c03", "recover")
    for k in range(cfg["recover"]):
        b = rrng.choice(progs)
        mask = rrng.choice([workload.DEFAULT, workload.ALL])
        w = rrng.randrange(cfg["worlds"])
        j = max(1, int(20000 ** rrng.random()))
        tid = add(b["text"], "auto", "auto", mask, b["id"], "recover", {"op": "opt_abort", "j": j}, worlds=[w])
        ops_by_world[w].append({"op": "opt", "t": tid})
    return targets, ops_by_world, progs


def run(args) -> int:
    """the check"""
    seed, tier = common.seed_and_tier(args)
    cfg = dict(TIERS[tier])
    timer = common.Timer()
    log(f"VERIF_SEED={seed} tier={tier} property=C03 repo={REPO}")
    targets, ops_by_world, progs = build(seed, cfg)
    # split every world's op list over several worker processes (same world, shorter histories)
    jobs = []
    per = 16 if tier == "quick" else 8
    for w, ops in ops_by_world.items():
        rng = stream(seed, "c03", "split", w)
        rng.shuffle(ops)
        # keep abort+retry pairs adjacent: re-attach retries behind their abort
        ordered = []
        retry = {}
        for o in ops:
            if o["op"] == "opt" and targets[o["t"]]["kind"] == "recover":
                retry[o["t"]] = o
        for o in ops:
            if o["op"] == "opt" and targets[o["t"]]["kind"] == "recover":
                continue
            ordered.append(o)
            if o["op"] == "opt_abort":
                ordered.append(retry[o["t"]])
        nsplit = max(1, min(per, len(ordered) // 40 + 1))
        for k in range(nsplit):
            part = ordered[k * len(ordered) // nsplit : (k + 1) * len(ordered) // nsplit]
            used = {o["t"] for o in part}
            jobs.append(
                {
                    "seed": seed,
                    "world": world_of(seed, w),
                    "targets": {t: targets[t] for t in used},
                    "ops": part,
                    "use_faults": True,
                    "wall_s": 5000,
                    "iter_cap": 100,
                    "step_cap": 50_000_000,
                    "w": w,
                }
            )
    # the command line tool terminates
    crng = stream(seed, "c03", "cli")
    cli_progs = {b["id"]: b["text"] for b in crng.sample(progs, min(cfg["cli"], len(progs)))}
    cli_runs = []
    for pid in cli_progs:
        spec = crng.choice([{}, {"enable": ["all"]}, {"enable": ["default"]}, {"enable": [crng.choice(workload.TRAITS)]}])
        from sim import climodel

        cli_runs.append(
            {
                "program": pid,
                "spec": spec,
                "argv": climodel.render(spec, crng),
                "stall": crng.choice([None, None, None, {"first": 1.5}, {"mid": [2, 1.5]}, {"out": 1.5}]),
                "chunks": [crng.choice([1, 7, 100]) for _ in range(20)],
                "drain_seed": crng.randrange(2**31),
                "drain_sizes": [1, 64, 4096],
                "drain_policy": "random",
                "buffering": "pipe",
                "small_pipes": True,
            }
        )
    ncli = 8 if tier == "quick" else 16
    for k in range(ncli):
        mine = cli_runs[k::ncli]
        if mine:
            jobs.append({"seed": seed, "module": "sim.cliworker", "world": world_of(seed, k % cfg["worlds"]), "programs": cli_progs, "runs": mine, "wall_s": 5000})
    # known findings are exercised at exactly the listed inputs (pristine world, that call only)
    known = common.load_known()
    known = [k for k in known if k.get("property") == "C03"]
    kf_job = None
    if known:
        kf_targets = {k["id"]: {"text": k["program"], "inp": k["inp"], "out": k["out"], "mask": k["mask"]} for k in known}
        kf_job = {"seed": seed, "world": dict(PRISTINE), "targets": kf_targets, "ops": [{"op": "opt", "t": k["id"]} for k in known], "wall_s": 3000, "w": -1, "kf": True}
        jobs.append(kf_job)
    pool = Pool("c03")
    violations: list = []
    known_lines: list = []
    try:
        res = pool.run(jobs)
        check_results(res)
        nrep = 0
        if kf_job is not None:
            r = res[jobs.index(kf_job)]
            for k, ev in zip(known, [e for e in r["events"] if e.get("op") == "opt"]):
                if ev["outcome"] == k["outcome"]:
                    known_lines.append(f"{k['id']}: {k['what']}")
                elif ev["outcome"].startswith("OK"):
                    log(f"known finding {k['id']} no longer fails at its listed input")
                else:
                    doc = {"property": "C03", "kind": "exception", "seed": seed, "outcome": ev["outcome"], "world": dict(PRISTINE), "targets": {"t": kf_job["targets"][k["id"]]}, "ops": [{"op": "opt", "t": "t"}], "program": k["program"], "traits": workload.mask_name(k["mask"]), "note": f"input of known finding {k['id']} now fails differently (listed: {k['outcome']})"}
                    violations.append({"replay": common.write_replay("C03", seed, nrep, doc)})
                    nrep += 1
        st = {
            "calls": 0,
            "ok": 0,
            "kinds": {},
            "fault_fired": {},
            "fault_ops": 0,
            "fault_ops_fired": 0,
            "refine": {},
            "refine_positions_hit": 0,
            "refine_changed": 0,
            "aborted": 0,
            "recovered": 0,
            "iters_max": 0,
            "iters_hist": {},
            "steps": 0,
            "steps_max": 0,
            "cli": {"runs": 0, "exit0": 0, "not_judged": 0},
            "loop_blind": 0,
            "faults_blind": 0,
        }
        distinct = set()
        bad: list = []
        for job, r in zip(jobs, res):
            if job.get("kf"):
                continue
            if job.get("module") == "sim.cliworker":
                for rn, ev in zip(job["runs"], [e for e in r["events"] if e.get("op") == "run"]):
                    st["cli"]["runs"] += 1
                    if ev["verdict"] == "violation:does-not-terminate":
                        bad.append({"kind": "cli-does-not-terminate", "job": job, "run": rn, "ev": ev})
                        continue
                    if ev["verdict"].startswith("harness"):
                        if ev["verdict"] == "harness-timeout":
                            bad.append({"kind": "cli-does-not-terminate", "job": job, "run": rn, "ev": ev})
                            continue
                        raise HarnessError(f"cli child: {ev['verdict']} {ev.get('detail')}")
                    if ev.get("ref_ok") is False:
                        st["cli"]["not_judged"] += 1
                    elif ev["exit"] == 0:
                        st["cli"]["exit0"] += 1
                    else:
                        bad.append({"kind": "cli-nonzero-exit", "job": job, "run": rn, "ev": ev})
                continue
            if r["events"][0].get("loop_blind"):
                st["loop_blind"] += 1
            for ev in r["events"]:
                op = ev.get("op")
                if op in ("world", "end"):
                    continue
                oc = ev.get("outcome", "")
                if oc.startswith("HARNESS"):
                    raise HarnessError(f"worker op failed: {oc}")
                if oc.startswith("SKIPPED"):
                    continue
                tid = ev["t"]
                tgt = targets[tid]
                st["calls"] += 1
                st["kinds"][tgt["kind"].split(":")[0]] = st["kinds"].get(tgt["kind"].split(":")[0], 0) + 1
                st["steps"] += int(ev.get("steps") or 0)
                st["steps_max"] = max(st["steps_max"], int(ev.get("steps") or 0))
                if ev.get("iters"):
                    st["iters_max"] = max(st["iters_max"], ev["iters"])
                    st["iters_hist"][str(ev["iters"])] = st["iters_hist"].get(str(ev["iters"]), 0) + 1
                wit = {"world": job["world"], "w": job["w"], "i": ev["i"], "t": tid}
                if op == "opt_abort":
                    if oc == "ABORTED":
                        st["aborted"] += 1
                        continue
                if op == "opt_fault":
                    st["fault_ops"] += 1
                    if ev.get("faults_blind"):
                        st["faults_blind"] += 1
                    fired = sum(ev.get("fired", {}).values())
                    for k, v in ev.get("fired", {}).items():
                        st["fault_fired"][k] = st["fault_fired"].get(k, 0) + v
                    if fired:
                        st["fault_ops_fired"] += 1
                        distinct.add(("fault", tgt["text"], tgt["mask"], json.dumps(ev.get("fired"), sort_keys=True)))
                    free = ev.get("free_outcome", "")
                    if not free.startswith("OK"):
                        bad.append({"kind": "outcome", "outcome": free, "wit": wit, "faulted": False})
                        continue
                    if not oc.startswith("OK"):
                        bad.append({"kind": "outcome", "outcome": oc, "wit": wit, "faulted": True, "plan": None})
                        continue
                    rf = ev.get("refine")
                    if rf:
                        st["refine"][rf["verdict"]] = st["refine"].get(rf["verdict"], 0) + 1
                        st["refine_positions_hit"] += rf.get("positions_hit", 0)
                        st["refine_changed"] += rf.get("changed_by_fault", 0)
                        if rf["verdict"] == "violation":
                            bad.append({"kind": "refinement", "wit": wit, "detail": rf})
                            continue
                    st["ok"] += 1
                    continue
                if oc.startswith("OK"):
                    st["ok"] += 1
                    if tgt["kind"] == "recover":
                        st["recovered"] += 1
                    distinct.add(("sweep", tgt["text"], tgt["mask"], json.dumps([tgt["inp"], tgt["out"]]), job["w"]))
                else:
                    bad.append({"kind": "outcome", "outcome": oc, "wit": wit, "faulted": False})
        # classify what went wrong: known finding or violation
        groups: dict = {}
        for b in bad:
            if b["kind"] == "outcome" and not b["faulted"]:
                groups.setdefault(b["outcome"], []).append(b)
        # minimise natural crashes in-process (deterministic in the input)
        minjobs, minmeta = [], []
        cands = []
        seen_key = set()
        for oc, lst in groups.items():
            for b in lst:
                tgt = targets[b["wit"]["t"]]
                key = (oc, tgt["text"], tgt["mask"], json.dumps([tgt["inp"], tgt["out"]]))
                if key not in seen_key:
                    seen_key.add(key)
                    cands.append((oc, b))
        # distinct programs first, then further trait sets of the same program; bounded work
        first, later, seen_text = [], [], set()
        for oc, b in cands:
            k = (oc, targets[b["wit"]["t"]]["text"])
            (later if k in seen_text else first).append((oc, b))
            seen_text.add(k)
        slow = [(oc, b) for oc, b in first + later if oc.startswith("DIVERGED")]
        for oc, b in [x for x in first + later if not x[0].startswith("DIVERGED")][:96]:
            tgt = targets[b["wit"]["t"]]
            minjobs.append(
                {
                    "seed": seed,
                    "world": dict(PRISTINE),
                    "targets": {b["wit"]["t"]: tgt},
                    "ops": [{"op": "exc_min", "t": b["wit"]["t"], "outcome": oc}],
                    "wall_s": 3000,
                    "step_cap": 50_000_000,
                    "w": 0,
                }
            )
            minmeta.append((oc, b))
        minres = pool.run(minjobs) if minjobs else []
        reported = set()
        # divergence is reported as found (every probe of a minimiser would cost a full cap again)
        for oc, b in slow[:4]:
            minmeta.append((oc, b))
            minres.append({"status": "skip", "events": []})
        for (oc, b), r in zip(minmeta, minres):
            evs = [e for e in r["events"] if e.get("op") == "exc_min"]
            mn = evs[0].get("min") if r["status"] == "ok" and evs else None
            tgt = targets[b["wit"]["t"]]
            if mn is None:
                mn = {"text": tgt["text"], "mask": tgt["mask"], "inp": tgt["inp"], "out": tgt["out"], "unminimised": True}
            canon = common.canonical(mn["text"])
            key = (oc, canon, mn["mask"])
            if key in reported:
                continue
            reported.add(key)
            if nrep >= 12:
                break
            kf = next((k for k in known if k.get("property") == "C03" and k.get("outcome") == oc and k.get("canonical") == canon and k.get("mask") == mn["mask"]), None)
            if kf is not None:
                if not any(x.startswith(kf["id"] + ":") for x in known_lines):
                    known_lines.append(f"{kf['id']}: {kf['what']}")
                continue
            doc = {
                "property": "C03",
                "kind": "exception" if oc.startswith("EXC") else "diverged",
                "seed": seed,
                "outcome": oc,
                "world": dict(PRISTINE),
                "targets": {"t": mn},
                "ops": [{"op": "opt", "t": "t"}],
                "program": mn["text"],
                "traits": workload.mask_name(mn["mask"]),
                "canonical": canon,
                "found_in": {"origin": tgt["origin"], "kind": tgt["kind"], "traits": workload.mask_name(tgt["mask"]), "world": b["wit"]["world"]},
            }
            violations.append({"replay": common.write_replay("C03", seed, nrep, doc)})
            nrep += 1
        for b in bad:
            if nrep >= 12:
                break
            if b["kind"] == "outcome" and b["faulted"]:
                job = next(j for j in jobs if j.get("w") == b["wit"]["w"] and b["wit"]["t"] in j.get("targets", {}))
                op = next(o for o in job["ops"] if o.get("t") == b["wit"]["t"] and o["op"] == "opt_fault")
                doc = {
                    "property": "C03",
                    "kind": "exception-under-sympy-fault",
                    "seed": seed,
                    "outcome": b["outcome"],
                    "world": b["wit"]["world"],
                    "targets": {b["wit"]["t"]: targets[b["wit"]["t"]]},
                    "ops": [op],
                    "program": targets[b["wit"]["t"]]["text"],
                    "traits": workload.mask_name(targets[b["wit"]["t"]]["mask"]),
                }
                violations.append({"replay": common.write_replay("C03", seed, nrep, doc)})
                nrep += 1
            elif b["kind"] == "refinement":
                job = next(j for j in jobs if j.get("w") == b["wit"]["w"] and b["wit"]["t"] in j.get("targets", {}))
                op = next(o for o in job["ops"] if o.get("t") == b["wit"]["t"] and o["op"] == "opt_fault")
                doc = {
                    "property": "C03",
                    "kind": "fallback-refinement",
                    "seed": seed,
                    "detail": b["detail"],
                    "world": b["wit"]["world"],
                    "targets": {b["wit"]["t"]: targets[b["wit"]["t"]]},
                    "ops": [op],
                    "program": targets[b["wit"]["t"]]["text"],
                    "traits": "math",
                }
                violations.append({"replay": common.write_replay("C03", seed, nrep, doc)})
                nrep += 1
            elif b["kind"].startswith("cli"):
                doc = {"property": "C03", "kind": b["kind"], "seed": seed, "world": b["job"]["world"], "run": b["run"], "stdin": b["job"]["programs"][b["run"]["program"]], "observed": b["ev"]}
                violations.append({"replay": common.write_replay("C03", seed, nrep, doc)})
                nrep += 1
            if nrep >= 12:
                break
        wall = timer.wall()
        probes_zero = [k for k, v in (("sympy faults fired", st["fault_ops_fired"]), ("aborts fired", st["aborted"]), ("refinement positions hit", st["refine_positions_hit"]), ("statements changed by a fault", st["refine_changed"])) if not v]
        sample_op = next((o for j in jobs if "ops" in j for o in j["ops"] if o["op"] == "opt_fault"), None)
        coverage = {
            "evaluations": st["calls"] + st["cli"]["runs"],
            "distinct_nontrivial": len(distinct),
            "rule": "one evaluation = one monitored optimize call (or one traced triple none/fault-free/faulted for a fault plan, or one CLI child); "
            "distinct & non-trivial = distinct (program, traits, fault plan) in which at least one injected fault fired, plus distinct "
            "(program, traits, declarations, world) of the fault-free sweep that returned",
            "samples": [
                {"fault_op": sample_op, "target": targets[sample_op["t"]] if sample_op else None},
                {"sweep_target": next(iter(targets.values()))},
            ],
            "programs": len(progs),
            "programs_note": f"fixed workload of {len(progs)} safe programs (+ {cfg['comps']} seeded compositions), not generated",
            "op_kinds": st["kinds"],
            "returned": st["ok"],
            "faults": {
                "fault_plans_run": st["fault_ops"],
                "fault_plans_in_which_a_fault_fired": st["fault_ops_fired"],
                "fired_by_site_and_exception": st["fault_fired"],
                "aborts_fired": st["aborted"],
                "calls_after_abort_that_returned": st["recovered"],
            },
            "refinement_oracle": st["refine"] | {"positions_where_a_fault_decided_the_result": st["refine_positions_hit"], "statements_changed_by_fault": st["refine_changed"]},
            "liveness": {"max_outer_iterations": st["iters_max"], "iterations_histogram": st["iters_hist"], "max_steps_per_call": st["steps_max"], "step_cap": 50_000_000, "iteration_cap": 100},
            "cli_termination": st["cli"],
            "probes_stuck_at_zero": probes_zero,
            "monitor_blind_workers": {"outer_loop": st["loop_blind"], "sympy_seam_ops": st["faults_blind"]},
            "simulated_steps(ngo line events)": st["steps"],
            "runs_per_hour": int(pool.spawned / max(wall, 1e-9) * 3600),
            "calls_per_hour": int(st["calls"] / max(wall, 1e-9) * 3600),
            "known_findings_seen": len(known_lines),
            "real_vs_stub": {"ngo, clingo, sympy, networkx": "real", "sympy.groebner / sympy.solve": "real unless the fault plan says the call fails"},
        }
        common.write_evidence(
            "C03",
            tier,
            seed,
            "exploration",
            coverage,
            wall,
            len(violations),
            [
                "the quantifier over programs is only sampled through a fixed workload; this technique decides the schedule-, fault- and progress-dependent part",
                "workload programs are checked to be safe by grounding them with clingo when the snapshot is built",
                "a repeated outer-loop state counts as divergence only at its third non-consecutive occurrence",
            ],
        )
        log(f"C03: calls={st['calls']} ok={st['ok']} bad={len(bad)} known={len(known_lines)} violations={len(violations)} faults_fired_ops={st['fault_ops_fired']} refine={st['refine']} wall={wall:.0f}s")
        return common.finish("C03", violations, known_lines)
    finally:
        pool.close()


def replay(path: str) -> int:
    """re-execute a replay file"""
    doc = json.load(open(path, encoding="utf-8"))
    pool = Pool("c03r")
    try:
        if doc["kind"].startswith("cli"):
            from sim.c19 import _one

            ev = _one(pool, doc.get("seed", 0), doc["world"], {doc["run"]["program"]: doc["stdin"]}, doc["run"])
            print(json.dumps({k: (ev or {}).get(k) for k in ("exit", "verdict", "detail")}))
            hit = ev is not None and (ev["verdict"] in ("harness-timeout", "violation:does-not-terminate") or (ev.get("ref_ok") and ev["exit"] != 0))
        else:
            job = {"seed": doc.get("seed", 0), "world": doc["world"], "targets": doc["targets"], "ops": doc["ops"], "use_faults": True, "wall_s": 3000}
            r = pool.run([job])[0]
            evs = [e for e in r["events"] if e.get("op") not in ("world", "end")]
            if r["status"] != "ok" or not evs:
                print("HARNESS-ERROR: replay worker failed", r["status"], r["stderr"][-500:])
                return 2
            ev = evs[-1]
            print(json.dumps({k: ev.get(k) for k in ("outcome", "free_outcome", "msg", "iters", "steps", "fired", "refine")}))
            hit = not ev["outcome"].startswith("OK") or (ev.get("refine") or {}).get("verdict") == "violation"
    finally:
        pool.close()
    if hit:
        print(f"VIOLATION property=C03 replay={path}")
        return 1
    print("replay did not reproduce the recorded violation")
    return 0
