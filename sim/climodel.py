"""Reference model of the command line (DESIGN §2.5), written from the documentation and the
property text, not from utils/parser.py.

A *spec* is what the user means; `render` turns it into an argv in one of the spellings the
shell allows; `expect` says what the documented behaviour is:

  enable   None (option absent)  or a list of tokens
  inp/out  "ABSENT" | "NOVALUE" | any string given as the value ("auto", "", "a/1, b/2", ...)
  log      None or a level string

Documented behaviour:
  all = nine traits; default = all but duplication; none = no trait (and may not be combined);
  names = themselves; default plus names = union; option absent = default.
  predicate options: absent or `auto` = auto-detect; no value or empty = empty list;
  otherwise a comma separated list of name/arity.
  stdout = one line per statement optimize returns, exit status 0; invalid -> no output, status != 0.
"""
from __future__ import annotations

TRAITS = [
    "cleanup",
    "unused",
    "duplication",
    "symmetry",
    "minmax_chains",
    "sum_chains",
    "math",
    "inline",
    "projection",
]
ALL = 511
DEFAULT = ALL & ~(1 << TRAITS.index("duplication"))
LEVELS = ["error", "warning", "info", "debug"]


def stray_blanks(value: str) -> bool:
    """blanks anywhere but directly after a comma: a spelling the documentation does not show"""
    import re

    return " " in re.sub(r", +", ",", value)


def _preds(value):
    """'a/1, b/2' -> [[a,1],[b,2]] or None if malformed"""
    out = []
    for item in value.split(","):
        parts = item.split("/")
        if len(parts) != 2:
            return None
        name = parts[0].strip(" ")
        try:
            arity = int(parts[1])
        except ValueError:
            return None
        out.append([name, arity])
    return out


def expect(spec: dict) -> dict:
    """{"verdict": "accept", mask, inp, out, "lenient": bool} or {"verdict": "reject"}.
    lenient: the spelling is one the documentation does not promise to accept (upper-case
    tokens); then either rejection without output or the lower-case meaning is fine."""
    lenient = False
    tokens = spec.get("enable")
    if tokens is None:
        mask = DEFAULT
    else:
        if not tokens:
            return {"verdict": "reject"}
        low = [t.lower() for t in tokens]
        if low != tokens:
            lenient = True
        for t in low:
            if t not in TRAITS and t not in ("all", "none", "default"):
                return {"verdict": "reject"}
        if "none" in low and len(low) > 1:
            return {"verdict": "reject"}
        mask = 0
        for t in low:
            if t == "all":
                mask |= ALL
            elif t == "default":
                mask |= DEFAULT
            elif t in TRAITS:
                mask |= 1 << TRAITS.index(t)
    decl = {}
    for key in ("inp", "out"):
        v = spec.get(key, "ABSENT")
        if v in ("ABSENT", "auto"):
            decl[key] = "auto"
        elif v in ("NOVALUE", ""):
            decl[key] = []
        else:
            p = _preds(v)
            if p is None:
                return {"verdict": "reject"}
            if stray_blanks(v):
                # either rejected without output or meaning the blank-free list; never a predicate whose name has a blank
                lenient = True
            decl[key] = p
    log = spec.get("log")
    if log is not None:
        if log.lower() not in LEVELS:
            return {"verdict": "reject"}
        if log.lower() != log and log.upper() != log:
            lenient = True
    if spec.get("sp"):
        # abbreviated option names and an option given twice with the same value: conventions of the
        # option parser the documentation does not mention; rejection without output, or the plain meaning
        lenient = True
    return {"verdict": "accept", "mask": mask, "inp": decl["inp"], "out": decl["out"], "lenient": lenient}


OPTION_NAMES = {"enable": "--enable", "inp": "--input-predicates", "out": "--output-predicates", "log": "--log"}


def abbreviations(key: str) -> list[str]:
    """every proper prefix of the long option that no other long option of the documented set shares"""
    full = OPTION_NAMES[key]
    others = [o for k, o in OPTION_NAMES.items() if k != key] + ["--version", "--help"]
    return [full[:n] for n in range(3, len(full)) if not any(o.startswith(full[:n]) for o in others)]


def render(spec: dict, rng) -> list[str]:
    """one of the argv spellings of the spec; option order is seeded.
    spec["sp"] = {"abbrev": {key: "--en"}, "repeat": [key]}: abbreviated option names; options given
    twice with the same value (both occurrences take part in the shuffle)"""
    parts = _render_parts(spec, rng)
    sp = spec.get("sp") or {}
    for key in sp.get("repeat", []):
        full = OPTION_NAMES[key]
        for p in list(parts):
            if p[0] == full or p[0].startswith(full + "="):
                parts.append(list(p))
                break
    for key, short in sorted((sp.get("abbrev") or {}).items()):
        full = OPTION_NAMES[key]
        for p in parts:
            if p[0] == full:
                p[0] = short
            elif p[0].startswith(full + "="):
                p[0] = short + p[0][len(full) :]
    rng.shuffle(parts)
    return [a for p in parts for a in p]


def _render_parts(spec: dict, rng) -> list[list[str]]:
    parts = []
    if spec.get("enable") is not None:
        en = list(spec["enable"])
        if len(en) == 1 and rng.random() < 0.3:
            parts.append([f"--enable={en[0]}"])
        else:
            parts.append(["--enable"] + en)
    for key, opt in (("inp", "--input-predicates"), ("out", "--output-predicates")):
        v = spec.get(key, "ABSENT")
        if v == "ABSENT":
            continue
        if v == "NOVALUE":
            parts.append([opt])
        elif rng.random() < 0.5 or v.startswith("-"):
            parts.append([f"{opt}={v}"])
        else:
            parts.append([opt, v])
    if spec.get("log") is not None:
        parts.append(["--log", spec["log"]] if rng.random() < 0.5 else [f"--log={spec['log']}"])
    return parts


def expected_stdout(statements: list[str]) -> bytes:
    """stdout = statements + newline"""
    return "".join(s + "\n" for s in statements).encode("utf-8")
