"""C17 — optimize is pure: reproducible, history-independent, leaves its argument alone.

Seeded search over worlds (hash seed H, AST/Symbol order salt A, sympy entropy D/R, GC and
logging regimes) x histories (sequences of earlier calls incl. aborted ones, repeated
calls on the same list, lists sharing statements) over a target set shared by all worlds
of a batch.  Oracle: one outcome per target in every world and at every history position;
argument fingerprint unchanged (DESIGN §3.1).
"""
from __future__ import annotations

import json
import os
import subprocess

from sim import common, minimize, workload
from sim.driver import PYTHON, REPO, VERIF, HarnessError, Pool, base_env, check_results, have_setarch, log
from sim.prng import stream

PRISTINE = {"H": 0, "A": 0, "D": 5_000_000, "Dcount": 0, "R": 0, "G": "on", "Lg": "none"}

TIERS = {
    # batches, worlds per batch, targets per batch, real-layout worlds per batch, canary procs, census worlds
    "quick": {"batches": 2, "worlds": 12, "targets": 40, "real": 3, "canary": 16, "abort": 0.20, "resalt": 0.0, "census": 3},
    "thorough": {"batches": 12, "worlds": 48, "targets": 64, "real": 16, "canary": 48, "abort": 0.15, "resalt": 0.05, "census": 10},
}
CENSUS_CHUNK = 45
QUICK_DERIVED_STEPS = 600_000


def build_targets(seed: int, batch: int, n: int, base: list[dict]) -> dict:
    """shared target set of a batch"""
    rng = stream(seed, "targets", batch)
    multi = [b for b in base if b["text"].count(".") >= 2]
    targets: dict = {}
    guard = 0
    while len(targets) < n and guard < 50 * n:
        guard += 1
        sibling = None
        r = rng.random()
        if r < 0.40:
            b = rng.choice(base)
            text, origin = b["text"], b["id"]
        elif r < 0.78:
            picks = rng.sample(multi, rng.choice([2, 2, 3, 3, 4]))
            text = workload.compose([p["text"] for p in picks])
            origin = "+".join(p["id"] for p in picks)
            if text is None:
                continue
        else:
            b = rng.choice(multi)
            k = rng.randrange(1000)
            text = workload.variant(b["text"], k)
            origin = f"{b['id']}-stmt{k}"
            if text is None:
                continue
            sibling = (b["text"], b["id"])
        mode = rng.choices(["auto", "outsinks", "outall", "inall", "explicit", "empty", "absent"], [0.3, 0.2, 0.1, 0.1, 0.1, 0.1, 0.1])[0]
        inp, out = workload.decl(mode, text, rng)
        mask = workload.swarm_mask(rng)
        tid = f"{batch}.{len(targets)}"
        targets[tid] = {"text": text, "inp": inp, "out": out, "mask": mask, "origin": origin, "decl": mode}
        if sibling is not None and len(targets) < n:
            # the program the variant was cut from, same traits: same predicate names, slightly different rules -
            # what a stale process-wide cache keyed by name would confuse
            tid = f"{batch}.{len(targets)}"
            targets[tid] = {"text": sibling[0], "inp": "auto", "out": "auto", "mask": mask, "origin": sibling[1], "decl": "auto"}
    return targets


def build_world(seed: int, batch: int, w: int) -> dict:
    """world w of a batch; world 0 is the pristine one"""
    if w == 0:
        return dict(PRISTINE)
    rng = stream(seed, "world", batch, w)
    return {
        "H": rng.randrange(1, 2**32),
        "A": rng.randrange(2**64),
        "D": rng.randrange(10**6, 9 * 10**6),
        "Dcount": rng.choice([0, 0, 1, 17, 1000]),
        "R": rng.randrange(2**31),
        "G": rng.choice(["on", "on", "off", "collect"]),
        "Lg": rng.choice(["none", "none", "debug", "info", "critical"]),
    }


def build_history(seed: int, batch: int, w: int, targets: dict, ref_steps: dict, cfg: dict, salted: bool) -> list:
    """seeded history of one world: every target once + repeats, fillers and aborted calls"""
    rng = stream(seed, "hist", batch, w)
    tids = list(targets)
    order = tids[:]
    rng.shuffle(order)
    ops: list = []
    done: list = []
    for t in order:
        while rng.random() < 0.30:
            r = rng.random()
            if r < 0.08:
                ops.append({"op": "gc"})
            elif r < 0.15:
                # the host application uses sympy / clingo itself between two calls
                ops.append({"op": "host", "kind": rng.choice(["sympy", "sympy", "clingo"]), "n": rng.choice([1, 2, 3, 7, 40])})
            elif r < 0.30:
                ops.append({"op": "detect", "t": rng.choice(tids)})
            elif r < 0.30 + cfg["resalt"] * 4 and salted:
                ops.append({"op": "resalt", "A": rng.randrange(2**64)})
            elif r < 0.55 + cfg["abort"] * 2:
                # abort preferably where fresh names are generated: what an aborted call leaves behind shows
                # itself mostly through the names the next call has to invent
                namegen = [t for t in tids if ref_steps.get(("names", t))]
                ta = rng.choice(namegen) if namegen and rng.random() < 0.6 else rng.choice(tids)
                steps = max(2, int(ref_steps.get(ta) or 2000))  # noqa
                if rng.random() < 0.5:
                    j = rng.randrange(1, steps + 1)
                else:  # log-uniform: early positions (normalisation, first passes) get their share
                    j = max(1, int(steps ** rng.random()))
                ops.append({"op": "opt_abort", "t": ta, "j": j})
                if rng.random() < 0.7:
                    # the aborted program again, straight away: same vocabulary, so anything the aborted call
                    # left behind (names, usage marks) has the best chance to collide
                    ops.append({"op": "opt", "t": ta})
            elif done:
                ops.append({"op": "opt", "t": rng.choice(done)})
        kind = rng.choices(["opt", "opt_same_list", "opt_shared", "opt_tuple"], [0.64, 0.14, 0.14, 0.08])[0]
        ops.append({"op": kind, "t": t})
        done.append(t)
    return ops


def build_census(seed: int, nworlds: int, programs: list[dict], all_masks: bool) -> dict:
    """every workload program once under `default` and `all` in every census world; each world runs
    the programs in its own shuffled order, cut into several worker processes (= several histories)"""
    targets = {}
    costs = workload._costs()  # pylint: disable=protected-access
    for b in programs:
        derived = b.get("src") in workload.DERIVED
        if derived and not all_masks and workload.cost_of(b["id"], costs) > QUICK_DERIVED_STEPS:
            continue  # the most expensive derived programs are left to the thorough tier (decided by committed data)
        outall = workload.decl("outall", b["text"], None)
        outsinks = workload.decl("outsinks", b["text"], None)
        inall = workload.decl("inall", b["text"], None)
        pick = ("o", "i", "a", "o", "d", "i")[len(targets) % 6]
        for mask, mn, dm in (
            (workload.DEFAULT, "d", "auto"),
            (workload.ALL, "a", "auto"),
            (workload.DEFAULT, "o", "outsinks"),
            (workload.DEFAULT, "i", "inall"),
            (workload.ALL, "p", "outall"),
        ):
            if not all_masks:
                if mn == "p":
                    continue  # quick tier: all traits + every predicate an output is left to the thorough tier
                if derived and mn != pick:
                    continue  # quick tier: a derived program gets one of the variants
                if not derived and mn == "i" and len(targets) % 2:
                    continue  # quick tier: every second base program with every predicate declared an input
            inp, out = {"auto": ("auto", "auto"), "outall": outall, "outsinks": outsinks, "inall": inall}[dm]
            targets[f"c.{b['id']}.{mn}"] = {"text": b["text"], "inp": inp, "out": out, "mask": mask, "origin": b["id"], "decl": dm, "derived": derived}
    jobs = {}
    for w in range(nworlds):
        world = dict(PRISTINE) if w == 0 else build_world(seed, "census", w)
        if w > 0:  # the census worlds rotate through the logging regimes of the embedding application
            world["Lg"] = ["debug", "critical", "info", "none"][(w - 1) % 4]
        order = list(targets)
        if w == 0 and not all_masks:
            # quick tier: derived programs are compared between the two non-pristine census worlds only
            order = [t for t in order if not targets[t].get("derived")]
        stream(seed, "census", "order", w).shuffle(order)
        for k in range(0, len(order), CENSUS_CHUNK):
            part = order[k : k + CENSUS_CHUNK]
            jobs[f"w{w}k{k // CENSUS_CHUNK}"] = {
                "seed": seed,
                "world": world,
                "targets": {t: targets[t] for t in part},
                "ops": [{"op": "opt", "t": t} for t in part],
                "wall_s": 3000,
            }
    return {"b": "c", "targets": targets, "jobs": jobs, "ref_steps": {}}


class Table:
    """single-outcome table + argument fingerprints"""

    def __init__(self):
        self.outcomes: dict = {}  # tid -> outcome -> [witness]
        self.texts: dict = {}  # outcome digest -> text
        self.arg_viol: list = []
        self.abort_arg_notes = 0
        self.ops = 0
        self.calls = 0
        self.aborted = 0
        self.step_div = 0
        self.steps = 0
        self.op_kinds: dict = {}
        self.paths: dict = {}  # tid -> set(path digests)
        self.fps: set = set()
        self.obs: set = set()
        self.abort_sites: dict = {}

    def add_events(self, wit_base: dict, events: list, targets: dict, pristine_fp: str | None):
        """feed one worker's event log"""
        fp = events[0].get("fp")
        self.fps.add(fp)
        for ev in events:
            op = ev.get("op")
            if op in ("world", "end"):
                continue
            self.ops += 1
            self.op_kinds[op] = self.op_kinds.get(op, 0) + 1
            if op == "resalt":
                fp = ev.get("fp", fp)
                self.fps.add(fp)
                continue
            if op in ("gc", "detect", "host"):
                continue
            tid = ev["t"]
            for k, (okey, tkey, pkey, skey) in enumerate(
                (("outcome", "text", "path", "steps"), ("outcome2", "text2", "path2", "steps2"))
            ):
                if okey not in ev:
                    continue
                self.calls += 1
                oc = ev[okey]
                self.steps += int(ev.get(skey) or 0)
                if tkey in ev:
                    self.texts.setdefault(oc, ev[tkey])
                if oc == "ABORTED":
                    self.aborted += 1
                    site = (ev.get("at") or "?").split(":")[0]
                    self.abort_sites[site] = self.abort_sites.get(site, 0) + 1
                    continue
                if oc in ("DIVERGED:steps", "DIVERGED:cpu") or oc.startswith("SKIPPED"):
                    self.step_div += 1
                    continue
                wit = dict(wit_base)
                wit.update({"i": ev["i"], "call": k + 1, "op": op})
                self.outcomes.setdefault(tid, {}).setdefault(oc, []).append(wit)
                if ev.get(pkey) is not None:
                    self.paths.setdefault(tid, set()).add(ev[pkey])
                nstm = targets[tid]["text"].count(".")
                if pristine_fp is not None and fp != pristine_fp and nstm >= 2:
                    self.obs.add((tid, fp, "first" if ev["i"] < 5 else "later", op, k))
            if ev.get("arg", "same") != "same":
                if ev.get("outcome") == "ABORTED":
                    self.abort_arg_notes += 1
                else:
                    wit = dict(wit_base)
                    wit.update({"i": ev["i"], "op": op, "t": tid, "detail": ev["arg"]})
                    self.arg_viol.append(wit)

    def divergent(self) -> list:
        """targets with more than one outcome"""
        return [t for t, o in self.outcomes.items() if len(o) > 1]


def cli_args(tgt: dict) -> list[str] | None:
    """argv for `python -m ngo` equivalent to an (auto, mask) target"""
    if tgt["inp"] != "auto" or tgt["out"] != "auto":
        return None
    names = [t for i, t in enumerate(workload.TRAITS) if tgt["mask"] >> i & 1]
    return ["--log", "error", "--enable"] + (names or ["none"])


def run_canary(targets: dict, table: Table, nproc: int, seed: int) -> dict:
    """plain `python -m ngo` processes, ASLR on, nothing pinned: what a user runs.
    The processes of one target are compared with each other (not with the API: whether the
    command line selects the right traits is C19's business, not C17's)."""
    from concurrent.futures import ThreadPoolExecutor

    import hashlib

    rng = stream(seed, "canary")
    cands = [t for t in targets if cli_args(targets[t]) is not None and len(table.outcomes.get(t, {})) == 1]
    cands = [t for t in cands if next(iter(table.outcomes[t])).startswith("OK:")]
    # prefer targets whose execution path really depends on the world
    cands.sort(key=lambda t: (-len(table.paths.get(t, ())), t))
    cands = cands[: max(4, nproc // 4)]
    rng.shuffle(cands)
    groups = cands[: max(1, nproc // 4)]
    picks = [groups[i % len(groups)] for i in range(nproc)] if groups else []

    def one(tid):
        tgt = targets[tid]
        env = base_env(None)  # no PYTHONHASHSEED: python draws a random one
        r = subprocess.run(
            [PYTHON, "-m", "ngo"] + cli_args(tgt),
            input=tgt["text"].encode(),
            capture_output=True,
            env=env,
            cwd=VERIF,
            timeout=900,
            check=False,
        )
        return tid, r.returncode, r.stdout

    res = {"runs": 0, "mismatch": [], "targets": len(groups), "api_disagreements(note only)": 0}
    seen: dict = {}
    with ThreadPoolExecutor(max_workers=16) as ex:
        for tid, rc, out in ex.map(one, picks):
            res["runs"] += 1
            seen.setdefault(tid, {}).setdefault((rc, hashlib.sha256(out).hexdigest()[:16]), out.decode("utf-8", "replace"))
    for tid, outs in seen.items():
        if len(outs) > 1:
            res["mismatch"].append(
                {"t": tid, "argv": cli_args(targets[tid]), "outputs": [{"status": k[0], "stdout": v} for k, v in outs.items()]}
            )
        else:
            (rc, _), text = next(iter(outs.items()))
            exp = next(iter(table.outcomes[tid]))
            got = "OK:" + hashlib.sha256(text[:-1].encode()).hexdigest()[:16] if rc == 0 and text.endswith("\n") else None
            if got != exp:
                res["api_disagreements(note only)"] += 1
    return res


def run(args) -> int:
    """the check"""
    seed, tier = common.seed_and_tier(args)
    cfg = dict(TIERS[tier])
    if os.environ.get("VERIF_C17_SCALE"):
        sc = float(os.environ["VERIF_C17_SCALE"])
        cfg["batches"] = max(1, int(cfg["batches"] * sc))
    timer = common.Timer()
    log(f"VERIF_SEED={seed} tier={tier} property=C17 repo={REPO}")
    base = workload.load_base()
    pool = Pool("c17")
    table = Table()
    violations: list = []
    notes: list = []
    try:
        batches = []
        for b in range(cfg["batches"]):
            batches.append({"b": b, "targets": build_targets(seed, b, cfg["targets"], base)})
        # phase 1: pristine world, every target once: reference outcomes and step counts
        jobs = []
        for bt in batches:
            ops = [{"op": "opt", "t": t, "lines": True} for t in bt["targets"]]
            jobs.append({"seed": seed, "world": dict(PRISTINE), "targets": bt["targets"], "ops": ops, "wall_s": 3000})
        census = build_census(seed, cfg["census"], workload.load_all(), tier == "thorough") if cfg["census"] else None
        cjobs = list(census["jobs"].items()) if census is not None else []
        res = pool.run(jobs + [j for _, j in cjobs])
        check_results(res)
        pristine_fp = res[0]["events"][0]["fp"]
        census_res = res[len(jobs) :]
        for bt, r in zip(batches, res):
            bt["ref_steps"] = {e["t"]: e.get("steps") for e in r["events"] if e.get("op") == "opt"}
            seen_text = {}
            for e in r["events"]:
                if e.get("op") == "opt":
                    if "text" in e:
                        seen_text[e["outcome"]] = e["text"]
                    txt = seen_text.get(e["outcome"], "")
                    bt["ref_steps"][("names", e["t"])] = ("AUX" in txt) or ("__" in txt)
            table.add_events({"b": bt["b"], "w": 0, "world": dict(PRISTINE), "pristine": True}, r["events"], bt["targets"], pristine_fp)
            bt["jobs"] = {0: jobs[bt["b"]]}
        log(f"phase 1 done: {len(jobs)} pristine workers, {table.calls} calls, {timer.wall():.0f}s")
        # phase 2: all other worlds
        jobs, meta = [], []
        setarch = have_setarch()
        for bt in batches:
            for w in range(1, cfg["worlds"]):
                world = build_world(seed, bt["b"], w)
                ops = build_history(seed, bt["b"], w, bt["targets"], bt["ref_steps"], cfg, True)
                jobs.append({"seed": seed, "world": world, "targets": bt["targets"], "ops": ops, "wall_s": 3000})
                meta.append((bt, w))
            if setarch:
                for k in range(cfg["real"]):
                    rng = stream(seed, "real", bt["b"], k)
                    world = {
                        "H": rng.randrange(1, 2**32),
                        "A": None,
                        "pad": rng.choice([0, 1, 7, 64, 1000]),
                        "norandomize": True,
                        "D": rng.randrange(10**6, 9 * 10**6),
                        "R": rng.randrange(2**31),
                        "G": "on",
                        "Lg": "none",
                    }
                    w = 1000 + k
                    ops = build_history(seed, bt["b"], w, bt["targets"], bt["ref_steps"], cfg, False)
                    jobs.append({"seed": seed, "world": world, "targets": bt["targets"], "ops": ops, "wall_s": 3000})
                    meta.append((bt, w))
        res = pool.run(jobs)
        check_results(res)
        for (key, job), r in zip(cjobs, census_res):
            table.add_events(
                {"b": "c", "w": key, "world": job["world"], "pristine": job["world"] == PRISTINE}, r["events"], census["targets"], pristine_fp
            )
        for (bt, w), r, job in zip(meta, res, jobs):
            bt["jobs"][w] = job
            table.add_events(
                {"b": bt["b"], "w": w, "world": job["world"], "pristine": job["world"] == PRISTINE}, r["events"], bt["targets"], pristine_fp
            )
        log(f"phase 2 done: {len(jobs)} workers, {table.calls} calls, {timer.wall():.0f}s")
        batches_by_key = {str(bt["b"]): bt for bt in batches}
        if census is not None:
            batches_by_key["c"] = census
        all_targets = {}
        for bt in batches_by_key.values():
            all_targets.update(bt["targets"])
        # oracle
        nrep = 0
        for tid in table.divergent():
            bt = batches_by_key[tid.split(".")[0]]
            doc = minimize.c17_divergence(pool, seed, tid, bt, table)
            path = common.write_replay("C17", seed, nrep, doc)
            nrep += 1
            violations.append({"replay": path, "kind": doc["kind"], "target": tid})
            if nrep >= 3:
                notes.append(f"{len(table.divergent())} divergent targets in total; first 3 minimised")
                break
        for wit in table.arg_viol[:3]:
            bt = batches_by_key[str(wit["b"])]
            doc = minimize.c17_argument(pool, seed, wit, bt)
            path = common.write_replay("C17", seed, nrep, doc)
            nrep += 1
            violations.append({"replay": path, "kind": doc["kind"], "target": wit["t"]})
        # unpinned canary
        canary = {"runs": 0, "mismatch": []}
        if not violations and cfg["canary"]:
            canary = run_canary(all_targets, table, cfg["canary"], seed)
            for mm in canary["mismatch"][:2]:
                doc = minimize.c17_canary(pool, seed, mm, all_targets[mm["t"]], table)
                path = common.write_replay("C17", seed, nrep, doc)
                nrep += 1
                violations.append({"replay": path, "kind": doc["kind"], "target": mm["t"]})
        # evidence
        multi_path = sum(1 for t, p in table.paths.items() if len(p) >= 2 and len(table.outcomes.get(t, {})) == 1)
        hist_len: dict = {}
        for bt in batches_by_key.values():
            for job in bt["jobs"].values():
                k = f"{(len(job['ops']) // 20) * 20}-{(len(job['ops']) // 20) * 20 + 19}"
                hist_len[k] = hist_len.get(k, 0) + 1
        sample_job = batches[0]["jobs"][1] if 1 in batches[0]["jobs"] else batches[0]["jobs"][0]
        wall = timer.wall()
        coverage = {
            "evaluations": table.calls,
            "distinct_nontrivial": len(table.obs),
            "rule": "one evaluation = one monitored optimize call inside a seeded history of one world; distinct & non-trivial = "
            "distinct (target, world order fingerprint, history-position class, op kind, call no.) observed in a world whose "
            "order fingerprint differs from the pristine one, on programs of >= 2 statements",
            "samples": [
                {
                    "world": sample_job["world"],
                    "history_prefix": sample_job["ops"][:12],
                    "first_target": {k: v for k, v in list(batches[0]["targets"].values())[0].items()},
                }
            ],
            "worker_processes": pool.spawned,
            "worlds": len({json.dumps(j["world"], sort_keys=True) for bt in batches_by_key.values() for j in bt["jobs"].values()}),
            "census": {"programs": len(workload.load_all()), "worlds": cfg["census"], "variants": ["default/auto", "all/auto", "default/outputs = sink predicates", "(thorough) all/every predicate an output"], "targets": len(census["targets"]) if census else 0},
            "distinct_order_fingerprints": len(table.fps),
            "targets": len(all_targets),
            "targets_with_two_or_more_path_digests_and_one_outcome": multi_path,
            "operations": table.ops,
            "op_kinds": table.op_kinds,
            "faults": {
                "abort_configured": table.op_kinds.get("opt_abort", 0),
                "abort_fired": table.aborted,
                "abort_sites_by_file": table.abort_sites,
                "natural_aborts(EXC outcomes)": sum(
                    len(w) for o in table.outcomes.values() for k, w in o.items() if k.startswith("EXC")
                ),
                "argument_changed_after_aborted_call(note only)": table.abort_arg_notes,
                "step_cap_hits(ignored by oracle)": table.step_div,
            },
            "histories_by_length": hist_len,
            "simulated_steps(ngo line events; there is no clock to simulate)": table.steps,
            "runs_per_hour": int(pool.spawned / max(wall, 1e-9) * 3600),
            "calls_per_hour": int(table.calls / max(wall, 1e-9) * 3600),
            "real_layout_tier": "setarch -R available" if setarch else "unavailable in this sandbox (not an alarm)",
            "unpinned_canary": {k: v for k, v in canary.items() if k != "mismatch"},
            "real_vs_stub": {
                "ngo (src/ngo from the working tree)": "real",
                "clingo parser/AST": "real; AST/Symbol __hash__ replaced by salted content hash in A-worlds, real in real-layout worlds",
                "sympy, networkx": "real; sympy's three entropy sources pinned via its own attributes",
                "clock/network/disk": "do not exist in the system",
            },
            "notes": notes,
        }
        common.write_evidence(
            "C17",
            tier,
            seed,
            "exploration",
            coverage,
            wall,
            len(violations),
            [
                "orders are sampled, not enumerated",
                "salted content hash A is a model of clingo's address-based hash; the real-layout tier samples the real one",
                "workload is the committed snapshot plus seeded compositions/variants, not generated programs",
            ],
        )
        log(
            f"C17: calls={table.calls} worlds={coverage['worlds']} fps={len(table.fps)} aborted={table.aborted} "
            f"multi-path targets={multi_path} violations={len(violations)} wall={wall:.0f}s"
        )
        return common.finish("C17", violations, [])
    finally:
        pool.close()


def replay(path: str) -> int:
    """re-execute a replay file in fresh processes; exit 1 + VIOLATION when it reproduces"""
    doc = json.load(open(path, encoding="utf-8"))
    pool = Pool("c17r")
    try:
        ok = minimize.replay_c17(pool, doc)
    finally:
        pool.close()
    if ok:
        print(f"VIOLATION property=C17 replay={path}")
        return 1
    print("replay did not reproduce the recorded violation")
    return 0
