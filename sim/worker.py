"""One world per worker process: executes a history of operations against the real ngo.

usage: PYTHONHASHSEED=<H> PYTHONPATH=<repo>/src:/verif python -u -m sim.worker <job.json> <events.jsonl>

The job holds the world, the targets and the op list (DESIGN §2.3).  One JSON line per
operation goes to the events file; logging never draws from a PRNG or reads a clock.
The worker is single-threaded; its behaviour is a function of (job, H, the code).
"""
from __future__ import annotations

import gc
import hashlib
import json
import os
import sys
import traceback

TRAITS = [
    "cleanup",
    "unused",
    "duplication",
    "symmetry",
    "minmax_chains",
    "sum_chains",
    "math",
    "inline",
    "projection",
]


def flags_of(mask: int) -> dict:
    """trait mask -> keyword flags of optimize"""
    return {t: bool(mask >> i & 1) for i, t in enumerate(TRAITS)}


def sha(text: str) -> str:
    """short content digest"""
    return hashlib.sha256(text.encode()).hexdigest()[:16]


class BlockedWatch:
    """Deadlock detector.  The step counter is the simulator's clock; when a call makes no step AND the
    process consumes no CPU for three consecutive 5 s ticks, nothing is runnable and no event is pending:
    the call is blocked for good (a lock that is never released, a read that nobody will answer).  That is
    reported as outcome DIVERGED:blocked, deterministically, instead of waiting for the harness timeout.
    A long computation inside a dependency burns CPU and is never mistaken for this."""

    TICK = 5.0
    CPU_CAP = 400.0  # CPU seconds per call: > 15x the most expensive call of the committed workload

    def __init__(self, steps):
        import signal
        import time

        self.steps = steps
        self.time = time
        self.last = (-1, 0.0)
        self.idle = 0
        self.fired = 0
        signal.signal(signal.SIGALRM, self._tick)
        signal.setitimer(signal.ITIMER_REAL, self.TICK, self.TICK)

    def _tick(self, _sig, _frm):
        from sim.monitor import Diverged

        if self.steps is None or not self.steps.active:
            self.idle = 0
            return
        now = (self.steps.n, self.time.process_time())
        if now[1] - self.steps.cpu0 > self.CPU_CAP:
            # burning CPU without end outside ngo's own lines (e.g. an ever growing subset enumeration inside
            # itertools): the step cap cannot see it, the blocked detector must not fire.  Backstop only.
            self.fired += 1
            self.steps.cpu0 = now[1]
            raise Diverged("cpu")
        if now[0] == self.last[0] and now[1] - self.last[1] < 0.05:
            self.idle += 1
        else:
            self.idle = 0
        self.last = now
        if self.idle >= 3:
            self.idle = 0
            self.fired += 1
            raise Diverged("blocked")


class Env:
    """everything an operation needs"""

    def __init__(self, job: dict):
        from sim import worldlib

        self.job = job
        self.world = job["world"]
        self.facts = worldlib.install(self.world)
        # only now: ngo and friends
        import clingo.ast
        import ngo
        import ngo.api
        from ngo.utils.ast import Predicate

        from sim.faults import SympyFaults
        from sim.monitor import LoopTracer, StepMonitor

        self.worldlib = worldlib
        self.clingo_ast = clingo.ast
        self.ngo = ngo
        self.Predicate = Predicate
        mon = job.get("monitor", {})
        self.steps = StepMonitor() if mon.get("steps", True) else None
        self.watch = BlockedWatch(self.steps) if self.steps is not None else None
        self.tracer = LoopTracer(job.get("iter_cap", 100)) if mon.get("loop", True) else None
        self.faults = SympyFaults() if job.get("use_faults") else None
        self.step_cap = int(job.get("step_cap", 50_000_000))
        self.targets = job["targets"]
        self.seen_text: set[str] = set()
        self.ngo_file = os.path.realpath(ngo.__file__)

    # ---- helpers -------------------------------------------------------------------------
    def parse(self, text: str) -> list:
        """parse afresh"""
        prg: list = []
        self.clingo_ast.parse_string(text, prg.append, logger=lambda c, m: None)
        return prg

    def decls(self, tgt: dict, prg: list):
        """declaration lists for a target"""

        def one(spec, auto):
            if spec == "auto":
                return auto(prg)
            return [self.Predicate(n, a) for n, a in spec]

        return one(tgt["inp"], self.ngo.auto_detect_input), one(tgt["out"], self.ngo.auto_detect_output)

    def dump(self, x):
        """deep dump incl. locations: edits invisible to str() count"""
        AST, ASTSequence = self.clingo_ast.AST, self.clingo_ast.ASTSequence
        if isinstance(x, AST):
            return (str(x.ast_type),) + tuple((k, self.dump(v)) for k, v in x.items())
        if isinstance(x, (ASTSequence, list)) or (isinstance(x, tuple) and not hasattr(x, "_fields")):
            return tuple(self.dump(v) for v in x)
        return repr(x)

    def fingerprint_args(self, prg, ip, op):
        """identity + str + deep dump of everything the caller handed over"""
        return {
            "list_id": id(prg),
            "ids": [id(s) for s in prg],
            "strs": [str(s) for s in prg],
            "deep": self._deep(prg),
            "ip": [(p.name, p.arity) for p in ip],
            "op": [(p.name, p.arity) for p in op],
            "ip_id": id(ip),
            "op_id": id(op),
        }

    def _deep(self, prg):
        try:
            return hashlib.sha256(repr([self.dump(s) for s in prg]).encode()).hexdigest()
        except RecursionError:
            # a term nested deeper than the harness itself can walk: fall back to str() only (said in the event)
            return "unavailable"

    @staticmethod
    def fp_diff(a: dict, b: dict):
        """None if equal, else the first difference in words"""
        for k in ("list_id", "ids", "strs", "deep", "ip", "op"):
            if a[k] != b[k]:
                if k == "strs":
                    for i, (x, y) in enumerate(zip(a[k], b[k])):
                        if x != y:
                            return f"str(statement {i}) changed: {x!r} -> {y!r}"
                    return f"number of statements changed: {len(a[k])} -> {len(b[k])}"
                if k in ("ip", "op"):
                    return f"{'input' if k == 'ip' else 'output'} predicate list changed: {a[k]} -> {b[k]}"
                if k == "deep":
                    return "deep dump (locations / shared subterms) changed although str() is equal"
                return f"{k} changed"
        return None

    def exc_class(self, exc: BaseException) -> str:
        """Type@file:function of the innermost ngo frame"""
        tb = traceback.extract_tb(exc.__traceback__)
        fr = [x for x in tb if "/src/ngo/" in x.filename]
        if fr:
            f = fr[-1]
            return f"{type(exc).__name__}@{f.filename.split('/src/ngo/')[-1]}:{f.name}"
        return f"{type(exc).__name__}@<outside ngo>"

    # ---- the monitored call ----------------------------------------------------------------
    def call(self, prg, ip, op, mask, abort_at=0, record_lines=False, trace=True):
        """optimize under all monitors; returns a result dict (never raises for outcomes)"""
        from sim.monitor import Abort, Diverged

        res: dict = {}
        if self.tracer is not None and trace:
            self.tracer.begin()
        if self.steps is not None:
            self.steps.start(self.step_cap, abort_at, record_lines)
        out = None
        try:
            out = self.ngo.optimize(prg, ip, op, **flags_of(mask))
            if self.steps is not None:
                res["steps"], res["path"] = self.steps.stop()
            text = "\n".join(str(s) for s in out)
            res["outcome"] = "OK:" + sha(text)
            res["_text"] = text
            if not isinstance(out, list):
                res["outcome"] = "EXC:NotAList@api.py:optimize"
        except Abort:
            if self.steps is not None:
                res["steps"], res["path"] = self.steps.stop()
                res["at"] = self.steps.last[0].split("/src/ngo/")[-1] + ":" + str(self.steps.last[1])
            res["outcome"] = "ABORTED"
        except Diverged as d:
            if self.steps is not None:
                res["steps"], res["path"] = self.steps.stop()
            res["outcome"] = "DIVERGED:" + d.kind
        except BaseException as exc:  # pylint: disable=broad-exception-caught
            if self.steps is not None:
                res["steps"], res["path"] = self.steps.stop()
            if isinstance(exc, (SystemExit, KeyboardInterrupt, GeneratorExit)) and not isinstance(exc, Abort):
                res["outcome"] = "EXC:" + type(exc).__name__ + "@<raised by ngo>"
            else:
                res["outcome"] = "EXC:" + self.exc_class(exc)
            res["msg"] = str(exc)[:200]
        finally:
            if self.steps is not None and self.steps.active:
                self.steps.stop()
            if self.tracer is not None and trace:
                self.tracer.end()
        if self.tracer is not None and trace:
            res["iters"] = len(self.tracer.states)
            if self.tracer.blind or (res["outcome"].startswith("OK") and not self.tracer.states):
                res["loop_blind"] = True
        return res

    def emit_text(self, ev: dict, res: dict, key="text"):
        """attach the output text the first time its digest is seen in this worker"""
        t = res.pop("_text", None)
        if t is not None:
            d = res["outcome"]
            if d not in self.seen_text:
                self.seen_text.add(d)
                ev[key] = t


# ---- operations ---------------------------------------------------------------------------


def op_opt(env: Env, op: dict) -> dict:
    """parse the program afresh, call optimize"""
    tgt = env.targets[op["t"]]
    prg = env.parse(tgt["text"])
    ip, opp = env.decls(tgt, prg)
    before = env.fingerprint_args(prg, ip, opp)
    res = env.call(prg, ip, opp, tgt["mask"], abort_at=op.get("j", 0), record_lines=op.get("lines", False))
    after = env.fingerprint_args(prg, ip, opp)
    ev = dict(res)
    ev["arg"] = env.fp_diff(before, after) or "same"
    env.emit_text(ev, res)
    ev.pop("_text", None)
    if op.get("lines") and env.steps is not None and env.steps.lines_hit is not None:
        ev["nlines"] = len(env.steps.lines_hit)
    return ev


def op_opt_same_list(env: Env, op: dict) -> dict:
    """call twice with the same list object: the second call must see the same program"""
    tgt = env.targets[op["t"]]
    prg = env.parse(tgt["text"])
    ip, opp = env.decls(tgt, prg)
    before = env.fingerprint_args(prg, ip, opp)
    res1 = env.call(prg, ip, opp, tgt["mask"])
    mid = env.fingerprint_args(prg, ip, opp)
    res2 = env.call(prg, ip, opp, tgt["mask"])
    after = env.fingerprint_args(prg, ip, opp)
    ev = dict(res1)
    env.emit_text(ev, res1)
    ev.pop("_text", None)
    ev2: dict = {}
    env.emit_text(ev2, res2, "text2")
    ev["outcome2"] = res2["outcome"]
    ev["steps2"] = res2.get("steps")
    ev["path2"] = res2.get("path")
    ev.update(ev2)
    ev["arg"] = env.fp_diff(before, mid) or env.fp_diff(mid, after) or "same"
    return ev


def op_opt_shared(env: Env, op: dict) -> dict:
    """two lists sharing their statement objects (callers reuse ASTs)"""
    tgt = env.targets[op["t"]]
    prg = env.parse(tgt["text"])
    prg2 = list(prg)
    ip, opp = env.decls(tgt, prg)
    ip2, opp2 = list(ip), list(opp)
    before = env.fingerprint_args(prg, ip, opp)
    before2 = env.fingerprint_args(prg2, ip2, opp2)
    res1 = env.call(prg, ip, opp, tgt["mask"])
    res2 = env.call(prg2, ip2, opp2, tgt["mask"])
    after = env.fingerprint_args(prg, ip, opp)
    after2 = env.fingerprint_args(prg2, ip2, opp2)
    ev = dict(res1)
    env.emit_text(ev, res1)
    ev.pop("_text", None)
    ev2: dict = {}
    env.emit_text(ev2, res2, "text2")
    ev["outcome2"] = res2["outcome"]
    ev["steps2"] = res2.get("steps")
    ev["path2"] = res2.get("path")
    ev.update(ev2)
    ev["arg"] = env.fp_diff(before, after) or env.fp_diff(before2, after2) or "same"
    return ev


def op_detect(env: Env, op: dict) -> dict:
    """auto_detect_input/_output only (public API sharing the collectors)"""
    tgt = env.targets[op["t"]]
    prg = env.parse(tgt["text"])
    try:
        ip = sorted((p.name, p.arity) for p in env.ngo.auto_detect_input(prg))
        opp = sorted((p.name, p.arity) for p in env.ngo.auto_detect_output(prg))
        return {"outcome": "DET:" + sha(repr((ip, opp)))}
    except Exception as exc:  # pylint: disable=broad-exception-caught
        return {"outcome": "DETEXC:" + env.exc_class(exc)}


def op_host(env: Env, op: dict) -> dict:
    """the embedding application uses the same libraries between two optimize calls (legal history)"""
    kind = op.get("kind")
    n = int(op.get("n", 3))
    if kind == "sympy":
        import sympy

        xs = [sympy.Dummy(f"host{i}", integer=True) for i in range(n)]
        sympy.expand(sum(xs) ** 2)
    elif kind == "clingo":
        import clingo

        ctl = clingo.Control(["--warn=none"], logger=lambda c, m: None)
        ctl.add("base", [], f"p(1..{n}). q(X,Y) :- p(X), p(Y), X < Y. {{ r(X) : p(X) }}.")
        ctl.ground([("base", [])])
        ctl.solve()
        prg: list = []
        env.clingo_ast.parse_string(f"h{n}(X) :- g{n}(X,Y), not f(Y).", prg.append)
    return {"outcome": "-"}


def op_opt_tuple(env: Env, op: dict) -> dict:
    """the API takes any Iterable[AST]: hand over a tuple and tuples of predicates"""
    tgt = env.targets[op["t"]]
    prg = tuple(env.parse(tgt["text"]))
    ip, opp = env.decls(tgt, list(prg))
    ip, opp = list(ip), list(opp)
    before = env.fingerprint_args(list(prg), ip, opp)
    res = env.call(prg, ip, opp, tgt["mask"])
    after = env.fingerprint_args(list(prg), ip, opp)
    before["list_id"] = after["list_id"] = 0
    ev = dict(res)
    ev["arg"] = env.fp_diff(before, after) or "same"
    env.emit_text(ev, res)
    ev.pop("_text", None)
    return ev


def op_gc(env: Env, op: dict) -> dict:
    """embedding process collects garbage"""
    gc.collect()
    return {"outcome": "-"}


def op_resalt(env: Env, op: dict) -> dict:
    """re-draw the AST/Symbol order regime at an operation boundary"""
    if env.world.get("A") is not None:
        env.worldlib.set_salt(op["A"])
    return {"outcome": "-", "fp": env.worldlib.fingerprint()}


def op_opt_fault(env: Env, op: dict) -> dict:
    """C03: fault-free traced run, then the same call under a sympy fault plan; refinement oracle"""
    from sim import oracle

    tgt = env.targets[op["t"]]
    plan = op["plan"]
    runs = {}
    for name, mask, pl in (
        ("none", 0, None),
        ("free", tgt["mask"], {"seed": plan["seed"], "groebner": 0, "solve": 0}),
        ("fault", tgt["mask"], plan),
    ):
        if name == "none" and not op.get("refine"):
            continue
        prg = env.parse(tgt["text"])
        ip, opp = env.decls(tgt, prg)
        if pl is not None and env.faults is not None:
            env.faults.arm(pl)
            env.faults.iter_of = lambda: len(env.tracer.states) - 1 if env.tracer is not None else -1
        try:
            res = env.call(prg, ip, opp, mask)
        finally:
            keys = []
            fired = {}
            calls = {}
            if pl is not None and env.faults is not None:
                keys = env.faults.keys_seen
                fired = dict(env.faults.fired)
                calls = dict(env.faults.calls)
                env.faults.disarm()
        runs[name] = {
            "res": res,
            "states": [list(s) for s in env.tracer.states] if env.tracer is not None else [],
            "types": [list(s) for s in env.tracer.types] if env.tracer is not None else [],
            "final": env.tracer.final if env.tracer is not None else None,
            "keys": keys,
            "fired": fired,
            "calls": calls,
        }
    ev = dict(runs["fault"]["res"])
    env.emit_text(ev, runs["fault"]["res"])
    ev.pop("_text", None)
    ev["free_outcome"] = runs["free"]["res"]["outcome"]
    ev["fired"] = runs["fault"]["fired"]
    ev["calls"] = runs["fault"]["calls"]
    ev["free_calls"] = runs["free"]["calls"]
    ev["free_iters"] = runs["free"]["res"].get("iters")
    ev["faults_blind"] = bool(env.faults is None or env.faults.blind)
    if op.get("refine"):
        ev["refine"] = oracle.refinement(runs, plan, env.faults)
    return ev


def op_exc_min(env: Env, op: dict) -> dict:
    """in-process minimisation of a crashing (program, mask): statements, then traits, then declarations,
    keeping the same outcome class.  Exceptions are deterministic in the input (else C17 reports)."""
    from sim import workload
    from sim.minimize import ddmin

    tgt = dict(env.targets[op["t"]])
    want = op["outcome"]

    def outcome(text, mask, inp, out):
        try:
            prg = env.parse(text)
        except Exception:  # pylint: disable=broad-exception-caught
            return None
        t2 = {"inp": inp, "out": out}
        ip, opp = env.decls(t2, prg)
        return env.call(prg, ip, opp, mask, trace=True)["outcome"]

    text, mask, inp, out = tgt["text"], tgt["mask"], tgt["inp"], tgt["out"]
    if outcome(text, mask, inp, out) != want:
        return {"outcome": "-", "min": None}
    for cand in (("auto", "auto"), ([], [])):
        if (inp, out) != cand and outcome(text, mask, *cand) == want:
            inp, out = cand
            break
    stmts = workload.statements(text)
    if len(stmts) > 1:
        stmts = ddmin(stmts, lambda cs: [outcome("\n".join(c) + "\n", mask, inp, out) == want for c in cs])
        text = "\n".join(stmts) + "\n"
    for i in range(9):
        if mask >> i & 1 and outcome(text, mask & ~(1 << i), inp, out) == want:
            mask &= ~(1 << i)
    return {"outcome": "-", "min": {"text": text, "mask": mask, "inp": inp, "out": out}}


OPS = {
    "exc_min": op_exc_min,
    "opt": op_opt,
    "opt_abort": op_opt,
    "opt_same_list": op_opt_same_list,
    "opt_tuple": op_opt_tuple,
    "host": op_host,
    "opt_shared": op_opt_shared,
    "detect": op_detect,
    "gc": op_gc,
    "resalt": op_resalt,
    "opt_fault": op_opt_fault,
}


def main(argv):
    """run the job"""
    job = json.load(open(argv[1], encoding="utf-8"))
    wall = int(job.get("wall_s", 0))
    if wall:
        import faulthandler

        faulthandler.dump_traceback_later(wall, exit=True)
    with open(argv[2], "w", encoding="utf-8") as out:

        def emit(ev):
            out.write(json.dumps(ev, sort_keys=True) + "\n")
            out.flush()

        env = Env(job)
        emit(
            {
                "i": -1,
                "op": "world",
                "seed": job.get("seed"),
                "world": job["world"],
                "facts": env.facts,
                "fp": env.worldlib.fingerprint(),
                "ngo": env.ngo_file,
                "loop_blind": bool(env.tracer is None or env.tracer.blind),
            }
        )
        collect = job["world"].get("G") == "collect"
        for i, op in enumerate(job["ops"]):
            if env.watch is not None and env.watch.fired >= 2:
                # the process is blocked for good; do not wait half a minute for every remaining operation
                emit({"i": i, "op": op["op"], "t": op.get("t"), "outcome": "SKIPPED:process-blocked"})
                continue
            try:
                ev = OPS[op["op"]](env, op)
            except Exception as exc:  # pylint: disable=broad-exception-caught
                # the harness (parse error in a candidate program, ...), not ngo: optimize's own exceptions
                # are outcomes and never arrive here
                ev = {"outcome": "HARNESS:" + repr(exc)[:300]}
            ev["i"] = i
            ev["op"] = op["op"]
            if "t" in op:
                ev["t"] = op["t"]
            if "j" in op:
                ev["j"] = op["j"]
            emit(ev)
            if collect:
                gc.collect()
        emit({"i": len(job["ops"]), "op": "end"})
    # the interval timer must not outlive the handler: python restores SIG_DFL while it finalises
    import signal

    signal.setitimer(signal.ITIMER_REAL, 0)
    signal.signal(signal.SIGALRM, signal.SIG_IGN)
    return 0


if __name__ == "__main__":
    sys.exit(main(sys.argv))
