"""Workload (DESIGN §2.2): committed data + seeded selection.  Nothing here is an oracle.

* base programs: /verif/workload/base.json (snapshot of the tests' own inputs + doc examples)
  and /verif/workload/extra.json (hand-written programs for constructs of the C03 quantifier)
* compositions: unions of 2-4 base programs, predicates renamed apart by suffix
* variants: a base program with one statement dropped (siblings that share predicate names
  with the target: what a stale process-wide cache would confuse)
* targets: (program, declaration mode, trait mask)
"""
from __future__ import annotations

import json
import os

from clingo.ast import ASTType, Transformer, parse_string

HERE = os.path.dirname(os.path.dirname(os.path.abspath(__file__)))

TRAITS = [
    "cleanup",
    "unused",
    "duplication",
    "symmetry",
    "minmax_chains",
    "sum_chains",
    "math",
    "inline",
    "projection",
]
ALL = 511
DEFAULT = ALL & ~(1 << TRAITS.index("duplication"))
NONE = 0
MAX_STATEMENTS = 40
MAX_BODY = 14


def load_base() -> list[dict]:
    """the committed snapshot"""
    items = json.load(open(os.path.join(HERE, "workload", "base.json"), encoding="utf-8"))
    extra = os.path.join(HERE, "workload", "extra.json")
    if os.path.exists(extra):
        items += [x for x in json.load(open(extra, encoding="utf-8")) if not x.get("kf_only")]
    return items


MAX_DERIVED_STEPS = 3_000_000


def _costs() -> dict:
    path = os.path.join(HERE, "workload", "cost.json")
    return json.load(open(path, encoding="utf-8")) if os.path.exists(path) else {}


def cost_of(pid: str, costs: dict | None = None) -> int:
    """measured ngo line events (max over `default` and `all`, pristine world; tools/measure_cost.py)"""
    costs = _costs() if costs is None else costs
    return max(costs.get(pid + ".d", 0), costs.get(pid + ".a", 0))


def _derived(name: str) -> list[dict]:
    """derived programs whose measured cost stays 15x below the step cap (a slow but terminating call must
    never be mistaken for divergence); decided by committed data, never by timing at check time"""
    path = os.path.join(HERE, "workload", name)
    if not os.path.exists(path):
        return []
    costs = _costs()
    return [b for b in json.load(open(path, encoding="utf-8")) if cost_of(b["id"], costs) <= MAX_DERIVED_STEPS]


def load_wide() -> list[dict]:
    """widened variants (tools/build_wide.py): every atom argument doubled, all safe"""
    return _derived("wide.json")


def load_twin() -> list[dict]:
    """twin-joined variants (tools/build_twin.py): program + renamed copy + statements joining both bodies"""
    return _derived("twin.json")


def load_fat() -> list[dict]:
    """fat-aggregate variants (tools/build_fat.py): every aggregate gets two more elements"""
    return _derived("fat.json")


def load_twinagg() -> list[dict]:
    """twin-element variants (tools/build_twinagg.py): every aggregate element doubled with twin predicates"""
    return _derived("twinagg.json")


def load_dir() -> list[dict]:
    """directive variants (tools/build_dir.py): program + #external/#heuristic/#edge/#project/#defined/#show term/
    conditional literal/double negation/disjunction about up to three of its own predicates"""
    return _derived("dir.json")


DERIVED = ("wide", "twin", "fat", "twinagg", "dir")


def load_all() -> list[dict]:
    """base + extra + wide + twin + fat + twinagg + dir"""
    return load_base() + load_wide() + load_twin() + load_fat() + load_twinagg() + load_dir()


def load_safe(wide: bool = False) -> list[dict]:
    """only programs clingo grounds without error (C03 quantifies over safe programs)"""
    return [b for b in (load_all() if wide else load_base()) if b.get("safe")]


def parse(text: str) -> list:
    """statements without the implicit `#program base.`"""
    prg: list = []
    parse_string(text, prg.append, logger=lambda c, m: None)
    return prg


class _Rename(Transformer):
    def __init__(self, suffix: str):
        self.suffix = suffix

    def _ren(self, sym):
        if sym.ast_type == ASTType.Function:
            return sym.update(name=sym.name + self.suffix)
        if sym.ast_type == ASTType.UnaryOperation:
            return sym.update(argument=self._ren(sym.argument))
        if sym.ast_type == ASTType.Pool:
            return sym.update(arguments=[self._ren(a) for a in sym.arguments])
        return sym

    def visit_SymbolicAtom(self, node):  # pylint: disable=invalid-name
        """rename the predicate, keep the terms"""
        return node.update(symbol=self._ren(node.symbol))

    def visit_ShowSignature(self, node):  # pylint: disable=invalid-name
        """#show p/n."""
        return node.update(name=node.name + self.suffix)

    def visit_ProjectSignature(self, node):  # pylint: disable=invalid-name
        """#project p/n."""
        return node.update(name=node.name + self.suffix)

    def visit_Defined(self, node):  # pylint: disable=invalid-name
        """#defined p/n."""
        return node.update(name=node.name + self.suffix)


class _Preds(Transformer):
    def __init__(self):
        self.preds: set[tuple[str, int]] = set()

    def _add(self, sym):
        if sym.ast_type == ASTType.Function:
            self.preds.add((sym.name, len(sym.arguments)))
        elif sym.ast_type == ASTType.UnaryOperation:
            self._add(sym.argument)
        elif sym.ast_type == ASTType.Pool:
            for a in sym.arguments:
                self._add(a)

    def visit_SymbolicAtom(self, node):  # pylint: disable=invalid-name
        """collect"""
        self._add(node.symbol)
        return node


def predicates_of(text: str) -> list[tuple[str, int]]:
    """all predicates occurring in atoms, sorted (uses clingo only, not ngo)"""
    c = _Preds()
    for s in parse(text):
        c.visit(s)
    return sorted(c.preds)


def _heads_and_bodies(text: str):
    """predicates occurring in rule heads / in bodies (of rules, constraints, weak constraints)"""
    heads, bodies = set(), set()
    for s in parse(text):
        if s.ast_type == ASTType.Rule:
            c = _Preds()
            c.visit(s.head)
            heads |= c.preds
            for lit in s.body:
                c2 = _Preds()
                c2.visit(lit)
                bodies |= c2.preds
        elif s.ast_type == ASTType.Minimize:
            for lit in s.body:
                c2 = _Preds()
                c2.visit(lit)
                bodies |= c2.preds
    return heads, bodies


def statements(text: str) -> list[str]:
    """printed statements, without `#program base.`"""
    return [str(s) for s in parse(text) if s.ast_type != ASTType.Program]


def size_ok(text: str) -> bool:
    """static size filter (projection.largest_subset is exponential in the body size)"""
    prg = parse(text)
    if len(prg) > MAX_STATEMENTS + 1:
        return False
    for s in prg:
        if s.ast_type in (ASTType.Rule, ASTType.Minimize) and len(s.body) > MAX_BODY:
            return False
    return True


def compose(texts: list[str]) -> str | None:
    """union of programs, predicates renamed apart; None if it does not parse / is too large"""
    out = []
    for k, text in enumerate(texts):
        ren = _Rename(f"_{k}")
        for s in parse(text):
            if s.ast_type == ASTType.Program:
                continue
            out.append(str(ren.visit(s)))
    text = "\n".join(out) + "\n"
    try:
        if not size_ok(text):
            return None
    except Exception:  # pylint: disable=broad-exception-caught
        return None
    return text


def variant(text: str, k: int) -> str | None:
    """the program without its k-th statement (mod length); None if it has < 2 statements"""
    st = statements(text)
    if len(st) < 2:
        return None
    k %= len(st)
    return "\n".join(st[:k] + st[k + 1 :]) + "\n"


def decl(mode: str, text: str, rng) -> tuple:
    """declaration mode -> (inp, out) specs for the worker"""
    if mode == "auto":
        return "auto", "auto"
    if mode == "empty":
        return [], []
    preds = predicates_of(text)
    if mode == "outall":
        # inputs auto-detected, every predicate of the program declared as output: nothing may be thrown away,
        # so every pass has to work on every rule (with auto-detection and no #show most rules simply vanish)
        return "auto", [list(p) for p in preds]
    if mode == "inall":
        # every predicate declared as given from outside (also those the program derives itself), outputs auto
        return [list(p) for p in preds], "auto"
    if mode == "outsinks":
        # the natural outputs of a program without #show: predicates derived by some head and used in no body;
        # intermediate predicates stay free to be removed, inlined or projected (falls back to outall)
        heads, bodies = _heads_and_bodies(text)
        sinks = [list(p) for p in preds if p in heads and p not in bodies]
        return "auto", sinks or [list(p) for p in preds]
    if mode == "explicit":
        inp = [list(p) for p in preds if rng.random() < 0.4]
        out = [list(p) for p in preds if rng.random() < 0.4]
        return inp, out
    if mode == "absent":
        inp = [list(p) for p in preds if rng.random() < 0.3] + [["not_in_program", 2], ["zzz", 0]]
        out = [list(p) for p in preds if rng.random() < 0.3] + [["also_absent", 1]]
        return inp, out
    raise ValueError(mode)


def swarm_mask(rng) -> int:
    """trait subset, swarm style"""
    r = rng.random()
    if r < 0.30:
        return DEFAULT
    if r < 0.55:
        return ALL
    if r < 0.60:
        return NONE
    if r < 0.70:
        return 1 << rng.randrange(9)
    if r < 0.80:
        return ALL ^ (1 << rng.randrange(9))
    return rng.randrange(512)


def mask_name(mask: int) -> str:
    """human readable"""
    if mask == ALL:
        return "all"
    if mask == DEFAULT:
        return "default"
    if mask == 0:
        return "none"
    return "+".join(t for i, t in enumerate(TRAITS) if mask >> i & 1)
