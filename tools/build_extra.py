"""One-off: turn workload/extra.lp.txt into workload/extra.json, and mark every workload program
(base + extra) as safe/unsafe by grounding it with clingo (C03 quantifies over safe programs only).
usage: /venv/bin/python tools/build_extra.py
"""
import json, os, sys
import clingo
from clingo.ast import parse_string
HERE = os.path.dirname(os.path.dirname(os.path.abspath(__file__)))


def safe(text):
    msgs = []
    try:
        ctl = clingo.Control(["--warn=none"], logger=lambda c, m: msgs.append(m))
        ctl.add("base", [], text)
        ctl.ground([("base", [])])
        return True
    except RuntimeError:
        return False


blocks = open(os.path.join(HERE, "workload", "extra.lp.txt")).read().split("%%%%\n")
items = []
for i, b in enumerate(blocks):
    kf_only = any(l.startswith("%% kf_only") for l in b.split("\n"))
    b = "\n".join(l for l in b.split("\n") if not l.startswith("%%"))
    if not b.strip():
        continue
    l = []
    try:
        parse_string(b, l.append, logger=lambda c, m: None)
    except RuntimeError:
        print("SYNTAX", i, repr(b)); continue
    ok = safe(b)
    if not ok:
        print("UNSAFE/INVALID extra block", i, repr(b[:80]))
    items.append({"id": f"x{i:03d}", "src": "extra", "text": b, "safe": ok} | ({"kf_only": True} if kf_only else {}))
json.dump(items, open(os.path.join(HERE, "workload", "extra.json"), "w"), indent=0, ensure_ascii=False)
base = json.load(open(os.path.join(HERE, "workload", "base.json")))
for b in base:
    b["safe"] = safe(b["text"])
json.dump(base, open(os.path.join(HERE, "workload", "base.json"), "w"), indent=0, ensure_ascii=False)
print(len(items), "extra;", sum(1 for b in base if b["safe"]), "of", len(base), "base programs are safe")
