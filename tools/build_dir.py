"""One-off: "directive" variants of the workload programs -> workload/dir.json.

C03 quantifies over programs "including constructs the traits do not optimise"; the hand-written blocks of
extra.lp.txt contain each such statement kind, but in tiny programs in which no pass rewrites anything.
For a program P the variant is P plus, for up to three of P's predicates p/n (the first and the last one
that occurs in a rule head, and the first one that occurs in bodies only), one statement of every kind that
ngo passes through, all of them *about p*:

    #external p(V) : p(V).            #heuristic p(V) : p(V). [1,true]     #edge (V1,n) : p(V).
    #project p/n.                     #project p(V) : p(V).                #defined p/n.
    #show p(V) : p(V).                dir_c :- not p(V) : p(V).            dir_n :- not not p(_,..,_).
    dir_a ; dir_b : p(V) :- dir_c.    #show dir_a/0.

so that a predicate a pass renames, inlines, projects or deletes as unused is also the subject of a
directive, a shown term, a conditional literal and a disjunction.  Only results that clingo still grounds
without error are kept.  Workload, not oracle.
usage: /venv/bin/python tools/build_dir.py
"""
import json, os
import clingo
from clingo.ast import ASTType, parse_string

HERE = os.path.dirname(os.path.dirname(os.path.abspath(__file__)))


def safe(text):
    try:
        ctl = clingo.Control(["--warn=none"], logger=lambda c, m: None)
        ctl.add("base", [], text)
        ctl.ground([("base", [])])
        return True
    except RuntimeError:
        return False


def atoms(node, acc):
    """(name, arity) of every positive-signed symbolic atom below node, in document order"""
    if node.ast_type == ASTType.SymbolicAtom:
        sym = node.symbol
        if sym.ast_type == ASTType.Function:
            acc.append((sym.name, len(sym.arguments)))
        return
    for key in node.child_keys:
        child = getattr(node, key)
        if child is None:
            continue
        if hasattr(child, "ast_type"):
            atoms(child, acc)
        else:
            for c in child:
                if hasattr(c, "ast_type"):
                    atoms(c, acc)


def directives(name, n, k):
    vs = [f"D{k}V{i}" for i in range(n)]
    at = f"{name}({','.join(vs)})" if n else name
    anon = f"{name}({','.join('_' for _ in range(n))})" if n else name
    first = vs[0] if n else "0"
    return [
        f"#external {at} : {at}.",
        f"#heuristic {at} : {at}. [1,true]",
        f"#edge ({first},{n}) : {at}.",
        f"#project {name}/{n}.",
        f"#project {at} : {at}.",
        f"#defined {name}/{n}.",
        f"#show {at} : {at}.",
        f"dir_c{k} :- not {at} : {at}.",
        f"dir_n{k} :- not not {anon}.",
        f"dir_a{k} ; dir_b{k} : {at} :- dir_c{k}.",
        f"#show dir_a{k}/0.",
        f"#show dir_n{k}/0.",
    ]


items = []
for fname in ("base.json", "extra.json"):
    for b in json.load(open(os.path.join(HERE, "workload", fname))):
        if not b.get("safe") or b.get("kf_only"):
            continue
        prg = []
        parse_string(b["text"], prg.append, logger=lambda c, m: None)
        prg = [s for s in prg if s.ast_type != ASTType.Program]
        if any(s.ast_type in (ASTType.TheoryDefinition, ASTType.Script) for s in prg):
            continue
        heads, bodies = [], []
        for s in prg:
            if s.ast_type == ASTType.Rule:
                atoms(s.head, heads)
                for l in s.body:
                    atoms(l, bodies)
            elif s.ast_type == ASTType.Minimize:
                for l in s.body:
                    atoms(l, bodies)
        chosen = []
        if heads:
            chosen.append(heads[0])
            if heads[-1] not in chosen:
                chosen.append(heads[-1])
        for p in bodies:
            if p not in heads:
                chosen.append(p)
                break
        if not chosen:
            continue
        extra = [d for k, (name, n) in enumerate(chosen) for d in directives(name, n, k)]
        text = "\n".join([str(s) for s in prg] + extra) + "\n"
        if not safe(text):
            continue
        items.append({"id": b["id"] + "r", "src": "dir", "of": b["id"], "text": text, "safe": True})
json.dump(items, open(os.path.join(HERE, "workload", "dir.json"), "w"), indent=0, ensure_ascii=False)
print(len(items), "directive variants")
