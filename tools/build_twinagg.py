"""One-off: "twin-element" variants of the workload programs -> workload/twinagg.json.

P + P_t (copy with every predicate suffixed _t) and, inside every body aggregate / head aggregate / choice
of P, the twin-renamed copy of each element is added next to the original one (predicates suffixed _t,
variables kept, so global variables stay shared; an extra tuple term keeps the tuples apart):
    #sum { S,a : tot(X,S) }      becomes      #sum { S,a : tot(X,S); S,a,t : tot_t(X,S) }
so that two equally ranked, independently defined candidates sit inside one and the same aggregate -
the aggregate analogue of the twin join.  Only results clingo still grounds are kept.  Workload, not oracle.
usage: /venv/bin/python tools/build_twinagg.py
"""
import json, os
import clingo
from clingo.ast import ASTType, Transformer, parse_string, Function, Location, Position

HERE = os.path.dirname(os.path.dirname(os.path.abspath(__file__)))
P0 = Position("<twinagg>", 1, 1)
LOC = Location(P0, P0)


class RenPreds(Transformer):
    """predicates -> _t, variables unchanged"""

    def _ren(self, sym):
        if sym.ast_type == ASTType.Function:
            return sym.update(name=sym.name + "_t")
        if sym.ast_type == ASTType.UnaryOperation:
            return sym.update(argument=self._ren(sym.argument))
        if sym.ast_type == ASTType.Pool:
            return sym.update(arguments=[self._ren(a) for a in sym.arguments])
        return sym

    def visit_SymbolicAtom(self, node):
        return node.update(symbol=self._ren(node.symbol))

    def visit_ShowSignature(self, node):
        return node.update(name=node.name + "_t")

    def visit_ProjectSignature(self, node):
        return node.update(name=node.name + "_t")

    def visit_Defined(self, node):
        return node.update(name=node.name + "_t")


class TwinElems(Transformer):
    def __init__(self):
        self.ren = RenPreds()
        self.touched = 0

    def visit_BodyAggregate(self, node):
        extra = []
        for e in node.elements:
            t = self.ren.visit(e)
            extra.append(t.update(terms=list(t.terms) + [Function(LOC, "t", [], False)]))
        self.touched += 1
        return node.update(elements=list(node.elements) + extra)

    def visit_HeadAggregate(self, node):
        extra = []
        for e in node.elements:
            t = self.ren.visit(e)
            extra.append(t.update(terms=list(t.terms) + [Function(LOC, "t", [], False)]))
        self.touched += 1
        return node.update(elements=list(node.elements) + extra)

    def visit_Aggregate(self, node):
        self.touched += 1
        return node.update(elements=list(node.elements) + [self.ren.visit(e) for e in node.elements])


class _P(Transformer):
    def __init__(self):
        self.names = set()

    def _add(self, sym):
        if sym.ast_type == ASTType.Function:
            self.names.add(sym.name)
        elif sym.ast_type == ASTType.UnaryOperation:
            self._add(sym.argument)
        elif sym.ast_type == ASTType.Pool:
            for a in sym.arguments:
                self._add(a)

    def visit_SymbolicAtom(self, node):
        self._add(node.symbol)
        return node


def preds_in(ast):
    c = _P()
    c.visit(ast)
    return c.names


def safe(text):
    try:
        ctl = clingo.Control(["--warn=none"], logger=lambda c, m: None)
        ctl.add("base", [], text)
        ctl.ground([("base", [])])
        return True
    except RuntimeError:
        return False


items = []
for name in ("base.json", "extra.json"):
    for b in json.load(open(os.path.join(HERE, "workload", name))):
        if not b.get("safe") or b.get("kf_only"):
            continue
        prg = []
        parse_string(b["text"], prg.append, logger=lambda c, m: None)
        prg = [s for s in prg if s.ast_type != ASTType.Program]
        if any(s.ast_type in (ASTType.TheoryDefinition, ASTType.Script) for s in prg):
            continue
        te, rp = TwinElems(), RenPreds()
        try:
            joined_ast = [te.visit(s) for s in prg]
            twin_ast = [rp.visit(s) for s in prg]
        except Exception:
            continue
        if not te.touched:
            continue
        # of the twin copy keep only the rules needed (transitively) to define the predicates that the added
        # elements use: the twin predicates then have exactly the uses the originals had, plus the one new one
        needed = set()
        for s in joined_ast:
            needed |= {q for q in preds_in(s) if q.endswith("_t")}
        keep, changed = set(), True
        while changed:
            changed = False
            for i, s in enumerate(twin_ast):
                if i in keep or s.ast_type != ASTType.Rule:
                    continue
                if preds_in(s.head) & needed:
                    keep.add(i)
                    new = set()
                    for lit in s.body:
                        new |= preds_in(lit)
                    if not new <= needed:
                        needed |= new
                    changed = True
        joined = [str(s) for s in joined_ast]
        twin = [str(s) for i, s in enumerate(twin_ast) if i in keep]
        # the twin copy defines the _t predicates; statements of the copy that themselves contain aggregates
        # are kept as they are (their own aggregates are not doubled again)
        text = "\n".join(joined + twin) + "\n"
        try:
            chk = []
            parse_string(text, chk.append, logger=lambda c, m: None)
        except RuntimeError:
            continue
        if len(chk) > 41 or len(text) > 5000 or not safe(text):
            continue
        items.append({"id": "g" + b["id"], "src": "twinagg", "text": text, "safe": True, "origin": b["id"]})
json.dump(items, open(os.path.join(HERE, "workload", "twinagg.json"), "w"), indent=0, ensure_ascii=False)
print(len(items), "twin-element safe programs")
