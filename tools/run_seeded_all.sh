#!/bin/sh
# developer helper: run the quick tier of the matching check against every seeded change, each in its own scratch
# worktree (VERIF_REPO, /repo itself is not touched), and write /verif/seeded/RESULTS.md.
# usage: tools/run_seeded_all.sh [id ...]
cd /verif || exit 2
ids="$*"
[ -z "$ids" ] && ids=$(ls seeded | grep -v RESULTS | sort)
out=${SEEDED_OUT:-seeded/RESULTS.md}
{
echo "# Quick tier against every seeded change"
echo
echo "Produced by \`tools/run_seeded_all.sh\` at /verif commit $(git rev-parse --short HEAD), /repo commit $(git -C /repo rev-parse --short HEAD)."
echo "Each change is applied to a scratch worktree of /repo; the check for the property it was written against is run"
echo "with \`VERIF_REPO=<worktree> ./check <P> --tier quick\` (seed default); exit 1 + VIOLATION lines = caught."
echo
echo "| id | property | exit | VIOLATION lines | wall s | summary of the run |"
echo "|----|----------|------|-----------------|--------|--------------------|"
} > $out
for id in $ids; do
  prop=$(python3 -c "import json;print(json.load(open('seeded/$id/meta.json'))['property'])")
  wt=/tmp/sw_$id
  git -C /repo worktree remove --force $wt >/dev/null 2>&1
  git -C /repo worktree add -f $wt HEAD -q || continue
  if ! git -C $wt apply /verif/seeded/$id/patch.diff; then echo "| $id | $prop | - | patch does not apply | - | - |" >> $out; git -C /repo worktree remove --force $wt; continue; fi
  t0=$(date +%s)
  VERIF_REPO=$wt VERIF_EVIDENCE_DIR=/tmp/sw_ev_$id VERIF_REPLAY_DIR=/tmp/sw_rp_$id timeout 3000 ./check $prop --tier quick > /tmp/sw_out_$id.txt 2> /tmp/sw_err_$id.txt
  rc=$?
  t1=$(date +%s)
  nv=$(grep -c '^VIOLATION' /tmp/sw_out_$id.txt)
  last=$(grep -v conda /tmp/sw_err_$id.txt | tail -1 | cut -c1-160 | tr '|' '/')
  echo "| $id | $prop | $rc | $nv | $((t1-t0)) | $last |" >> $out
  git -C /repo worktree remove --force $wt
  rm -rf /tmp/sw_ev_$id /tmp/sw_rp_$id
done
git -C /repo worktree prune
echo done
