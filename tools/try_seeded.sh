#!/bin/sh
# developer helper: run a check against a seeded change.
# usage: tools/try_seeded.sh <seeded-id> <C17|C19|C03> [tier]
# applies /verif/seeded/<id>/patch.diff to /repo, runs the check (evidence and replays go to a scratch
# directory so that committed evidence is never produced on a changed tree), and undoes the change.
id="$1"; prop="$2"; tier="${3:-quick}"
cd /verif || exit 2
out=/tmp/seeded-run-$id-$prop
rm -rf "$out"; mkdir -p "$out"
git -C /repo diff --quiet || { echo "/repo is dirty, refusing"; exit 2; }
git -C /repo apply "/verif/seeded/$id/patch.diff" || exit 2
VERIF_EVIDENCE_DIR="$out/evidence" VERIF_REPLAY_DIR="$out/replays" timeout 3000 ./check "$prop" --tier "$tier" > "$out/stdout.txt" 2> "$out/stderr.txt"
rc=$?
git -C /repo checkout -- .
git -C /repo diff --quiet || echo "WARNING: /repo still dirty"
echo "exit=$rc"; grep -c VIOLATION "$out/stdout.txt"; tail -2 "$out/stderr.txt"
