#!/bin/sh
# developer helper: validate MANIFEST.json and the evidence files against the given schemas (needs python3-vt)
python3-vt - <<'PY'
import json, jsonschema, glob
jsonschema.validate(json.load(open('/verif/MANIFEST.json')), json.load(open('/root/.vp/MANIFEST.schema.json')))
for f in glob.glob('/verif/evidence/*.json'):
    jsonschema.validate(json.load(open(f)), json.load(open('/root/.vp/EVIDENCE.schema.json')))
    print('valid', f)
print('manifest valid')
PY
