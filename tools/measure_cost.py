"""One-off: ngo line-event steps of every workload program under `default` and `all` in the pristine
world -> workload/cost.json (used to keep the *quick* census within its budget; thorough runs everything).
usage: PYTHONPATH=/verif /venv/bin/python tools/measure_cost.py
"""
import json, os, sys
sys.path.insert(0, os.path.dirname(os.path.dirname(os.path.abspath(__file__))))
from sim import driver, workload
from sim.c17 import PRISTINE

progs = workload.load_base()
for name in ("wide.json", "twin.json", "fat.json", "twinagg.json", "dir.json"):  # all derived programs, unfiltered
    path = os.path.join(driver.VERIF, "workload", name)
    if os.path.exists(path):
        progs += json.load(open(path, encoding="utf-8"))
jobs = []
chunk = 60
for k in range(0, len(progs), chunk):
    part = progs[k:k + chunk]
    targets, ops = {}, []
    for b in part:
        for mn, mask in (("d", workload.DEFAULT), ("a", workload.ALL)):
            tid = f"{b['id']}.{mn}"
            targets[tid] = {"text": b["text"], "inp": "auto", "out": "auto", "mask": mask}
            ops.append({"op": "opt", "t": tid})
    jobs.append({"seed": 0, "world": dict(PRISTINE), "targets": targets, "ops": ops, "wall_s": 3000})
pool = driver.Pool("cost")
res = pool.run(jobs)
pool.close()
cost = {}
for r in res:
    assert r["status"] == "ok", r["stderr"]
    for e in r["events"]:
        if e.get("op") == "opt":
            cost[e["t"]] = int(e.get("steps") or 0)
json.dump(cost, open(os.path.join(driver.VERIF, "workload", "cost.json"), "w"), indent=0, sort_keys=True)
vals = sorted(cost.values())
print(len(cost), "measured; median", vals[len(vals)//2], "p90", vals[int(len(vals)*.9)], "p99", vals[int(len(vals)*.99)], "max", vals[-1], "sum", sum(vals))
