"""One-off: "fat-aggregate" variants of the workload programs -> workload/fat.json.

Every body aggregate, head aggregate and choice gets two extra elements over fresh predicates
(`101,zf1 : zf1(…)`-style), so that every aggregate has at least three elements wherever it had one:
the third member of the family wide (>= 2 variables) / twin (>= 2 candidate predicates per body).
Only results that clingo still grounds without error are kept.  Workload, not oracle.
usage: /venv/bin/python tools/build_fat.py
"""
import json, os
import clingo
from clingo.ast import (ASTType, Transformer, parse_string, BodyAggregateElement, ConditionalLiteral, Function,
                        HeadAggregateElement, Literal, Location, Position, Sign, SymbolicAtom, SymbolicTerm)

HERE = os.path.dirname(os.path.dirname(os.path.abspath(__file__)))
P = Position("<fat>", 1, 1)
LOC = Location(P, P)


def atom(name):
    return Literal(LOC, Sign.NoSign, SymbolicAtom(Function(LOC, name, [], False)))


def num(n):
    return SymbolicTerm(LOC, clingo.Number(n))


class Fat(Transformer):
    def __init__(self):
        self.n = 0
        self.touched = 0

    def fresh(self):
        self.n += 1
        return f"zf{self.n}"

    def visit_BodyAggregate(self, node):
        self.touched += 1
        extra = []
        for k in (101, 102):
            f = self.fresh()
            extra.append(BodyAggregateElement([num(k), Function(LOC, f, [], False)], [atom(f)]))
        return node.update(elements=list(node.elements) + extra)

    def visit_HeadAggregate(self, node):
        self.touched += 1
        extra = []
        for k in (101, 102):
            f = self.fresh()
            extra.append(HeadAggregateElement([num(k), Function(LOC, f, [], False)], ConditionalLiteral(LOC, atom(f), [])))
        return node.update(elements=list(node.elements) + extra)

    def visit_Aggregate(self, node):
        self.touched += 1
        extra = [ConditionalLiteral(LOC, atom(self.fresh()), []) for _ in range(2)]
        return node.update(elements=list(node.elements) + extra)


def safe(text):
    try:
        ctl = clingo.Control(["--warn=none"], logger=lambda c, m: None)
        ctl.add("base", [], text)
        ctl.ground([("base", [])])
        return True
    except RuntimeError:
        return False


items = []
for name in ("base.json", "extra.json"):
    for b in json.load(open(os.path.join(HERE, "workload", name))):
        if not b.get("safe") or b.get("kf_only"):
            continue
        prg = []
        parse_string(b["text"], prg.append, logger=lambda c, m: None)
        fat = Fat()
        try:
            out = [str(fat.visit(s)) for s in prg if s.ast_type != ASTType.Program]
        except Exception:
            continue
        if not fat.touched:
            continue
        text = "\n".join(out) + "\n"
        try:
            chk = []
            parse_string(text, chk.append, logger=lambda c, m: None)
        except RuntimeError:
            continue
        if len(text) > 4000 or not safe(text):
            continue
        items.append({"id": "f" + b["id"], "src": "fat", "text": text, "safe": True, "origin": b["id"]})
json.dump(items, open(os.path.join(HERE, "workload", "fat.json"), "w"), indent=0, ensure_ascii=False)
print(len(items), "fat-aggregate safe programs")
