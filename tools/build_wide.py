"""One-off: "widened" variants of the workload programs -> workload/wide.json.

Every argument t of every atom p(t1..tn) is followed by a copy of t in which each variable V is
renamed to V_2: p(X,Y+1) becomes p(X,X_2,Y+1,Y_2+1); signatures (#show p/n etc.) double their arity.
The rule structure is unchanged but every set of variables / arguments that a pass collects has at
least two members wherever it had one - which is what makes iteration order matter.  Only results
that clingo still grounds without error (safe) are kept.  Workload, not oracle.
usage: /venv/bin/python tools/build_wide.py
"""
import json, os, sys
import clingo
from clingo.ast import ASTType, Transformer, parse_string, Variable

HERE = os.path.dirname(os.path.dirname(os.path.abspath(__file__)))


class RenVars(Transformer):
    def visit_Variable(self, node):
        if node.name == "_":
            return node
        return node.update(name=node.name + "_2")


class Widen(Transformer):
    def __init__(self):
        self.ren = RenVars()

    def _w(self, sym):
        if sym.ast_type == ASTType.Function and sym.arguments:
            args = []
            for a in sym.arguments:
                args.append(a)
                args.append(self.ren.visit(a))
            return sym.update(arguments=args)
        if sym.ast_type == ASTType.UnaryOperation:
            return sym.update(argument=self._w(sym.argument))
        return sym

    def visit_SymbolicAtom(self, node):
        return node.update(symbol=self._w(node.symbol))

    def visit_ShowSignature(self, node):
        return node.update(arity=node.arity * 2)

    def visit_ProjectSignature(self, node):
        return node.update(arity=node.arity * 2)

    def visit_Defined(self, node):
        return node.update(arity=node.arity * 2)


def safe(text):
    try:
        ctl = clingo.Control(["--warn=none"], logger=lambda c, m: None)
        ctl.add("base", [], text)
        ctl.ground([("base", [])])
        return True
    except RuntimeError:
        return False


items = []
for name in ("base.json", "extra.json"):
    for b in json.load(open(os.path.join(HERE, "workload", name))):
        if not b.get("safe") or b.get("kf_only"):
            continue
        prg = []
        parse_string(b["text"], prg.append, logger=lambda c, m: None)
        w = Widen()
        out = [str(w.visit(s)) for s in prg if s.ast_type != ASTType.Program]
        text = "\n".join(out) + "\n"
        if text.strip() == "\n".join(str(s) for s in prg if s.ast_type != ASTType.Program).strip():
            continue  # nothing to widen
        try:
            chk = []
            parse_string(text, chk.append, logger=lambda c, m: None)
        except RuntimeError:
            continue
        if len(text) > 4000 or not safe(text):
            continue
        items.append({"id": "w" + b["id"], "src": "wide", "text": text, "safe": True, "origin": b["id"]})
json.dump(items, open(os.path.join(HERE, "workload", "wide.json"), "w"), indent=0, ensure_ascii=False)
print(len(items), "widened safe programs")
