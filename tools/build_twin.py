"""One-off: "twin-joined" variants of the workload programs -> workload/twin.json.

For a program P the variant is P  +  P_t (a copy with every predicate suffixed _t and every variable
suffixed _t)  +  for every constraint, weak constraint / #minimize and every rule with a plain head of P
one extra statement whose body is the conjunction of the original body and its twin body:
    :- B.                 adds   :- B, B_t.
    :~ B. [w@p,t]         adds   :~ B, B_t. [w@p,t,t_t]
    h(args) :- B.         adds   h(args) :- B, B_t.
so that wherever a pass looks for "the" candidate predicate in a body (an at-most-one predicate, a
min/max or sum result, a duplicated literal set, a symmetric pair) there are two equally good ones.
Only results that clingo still grounds without error are kept.  Workload, not oracle.
usage: /venv/bin/python tools/build_twin.py
"""
import json, os
import clingo
from clingo.ast import ASTType, Transformer, parse_string

HERE = os.path.dirname(os.path.dirname(os.path.abspath(__file__)))


class Twin(Transformer):
    def _ren(self, sym):
        if sym.ast_type == ASTType.Function:
            return sym.update(name=sym.name + "_t")
        if sym.ast_type == ASTType.UnaryOperation:
            return sym.update(argument=self._ren(sym.argument))
        if sym.ast_type == ASTType.Pool:
            return sym.update(arguments=[self._ren(a) for a in sym.arguments])
        return sym

    def visit_SymbolicAtom(self, node):
        node = node.update(symbol=self._ren(node.symbol))
        return node.update(symbol=self.visit(node.symbol))

    def visit_Variable(self, node):
        if node.name == "_":
            return node
        return node.update(name=node.name + "_t")

    def visit_ShowSignature(self, node):
        return node.update(name=node.name + "_t")

    def visit_ProjectSignature(self, node):
        return node.update(name=node.name + "_t")

    def visit_Defined(self, node):
        return node.update(name=node.name + "_t")


def safe(text):
    try:
        ctl = clingo.Control(["--warn=none"], logger=lambda c, m: None)
        ctl.add("base", [], text)
        ctl.ground([("base", [])])
        return True
    except RuntimeError:
        return False


items = []
for name in ("base.json", "extra.json"):
    for b in json.load(open(os.path.join(HERE, "workload", name))):
        if not b.get("safe") or b.get("kf_only"):
            continue
        prg = []
        parse_string(b["text"], prg.append, logger=lambda c, m: None)
        prg = [s for s in prg if s.ast_type != ASTType.Program]
        if any(s.ast_type in (ASTType.TheoryDefinition, ASTType.Script) for s in prg):
            continue
        tw = Twin()
        out, joined = [], []
        for s in prg:
            out.append(str(s))
        for s in prg:
            t = tw.visit(s)
            out.append(str(t))
            if s.ast_type == ASTType.Rule and len(s.body) >= 1 and len(s.body) <= 4:
                if s.head.ast_type == ASTType.Literal:
                    joined.append(str(s.update(body=list(s.body) + list(t.body))))
            elif s.ast_type == ASTType.Minimize and 1 <= len(s.body) <= 4:
                joined.append(str(s.update(terms=list(s.terms) + list(t.terms), body=list(s.body) + list(t.body))))
        if not joined:
            continue
        text = "\n".join(out + joined) + "\n"
        try:
            chk = []
            parse_string(text, chk.append, logger=lambda c, m: None)
        except RuntimeError:
            continue
        if len(chk) > 41 or len(text) > 5000 or not safe(text):
            continue
        items.append({"id": "t" + b["id"], "src": "twin", "text": text, "safe": True, "origin": b["id"]})
json.dump(items, open(os.path.join(HERE, "workload", "twin.json"), "w"), indent=0, ensure_ascii=False)
print(len(items), "twin-joined safe programs")
