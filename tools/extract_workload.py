"""One-off: snapshot the programs the repository's own tests feed to single passes
(first element of every pytest.mark.parametrize case that clingo parses), plus the
README / package docstring examples, into /verif/workload/base.json.

Run once at build time of the framework (the snapshot is committed); checks never run it,
so edits to /repo/tests cannot change the workload.
usage: /venv/bin/python tools/extract_workload.py
"""
import ast, glob, json, re, sys
from clingo.ast import parse_string


def parses(s):
    try:
        l = []
        parse_string(s, l.append, logger=lambda c, m: None)
        return len(l) > 1
    except Exception:
        return False


def from_tests():
    out, seen = [], set()
    for f in sorted(glob.glob('/repo/tests/test_*.py')):
        tree = ast.parse(open(f).read())
        for node in ast.walk(tree):
            if isinstance(node, ast.Call) and getattr(node.func, 'attr', '') == 'parametrize':
                if len(node.args) >= 2 and isinstance(node.args[1], (ast.Tuple, ast.List)):
                    for case in node.args[1].elts:
                        first = case.elts[0] if isinstance(case, (ast.Tuple, ast.List)) and case.elts else case
                        if isinstance(first, ast.Constant) and isinstance(first.value, str):
                            s = first.value
                            if s in seen or not parses(s):
                                continue
                            seen.add(s)
                            out.append((f.split('/')[-1], s))
    return out, seen


def from_docs(seen):
    out = []
    for f in ('/repo/README.md', '/repo/src/ngo/__init__.py'):
        txt = open(f).read()
        for m in re.finditer(r"```(?:\w*)\n(.*?)```", txt, re.S):
            s = m.group(1)
            if s in seen or not parses(s):
                continue
            seen.add(s)
            out.append((f.split('/')[-1], s))
    return out


if __name__ == '__main__':
    t, seen = from_tests()
    d = from_docs(seen)
    items = [{"id": f"b{i:03d}", "src": src, "text": s} for i, (src, s) in enumerate(t + d)]
    json.dump(items, open('/verif/workload/base.json', 'w'), indent=0, ensure_ascii=False)
    print(len(t), "from tests", len(d), "from docs")
