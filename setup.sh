#!/bin/sh
# offline setup: nothing to build (pure python); verify the interpreter, the dependencies and that ngo is
# imported from /repo's working tree, then run a short determinism self-test.
cd "$(dirname "$0")" || exit 2
PYTHONPATH=/repo/src:$(pwd) PYTHONDONTWRITEBYTECODE=1 /venv/bin/python - <<'PY' || exit 2
import os, sys
import clingo, sympy, networkx, ngo
assert os.path.realpath(ngo.__file__).startswith("/repo/src/"), ngo.__file__
assert sys.version_info[:2] >= (3, 12), "sys.monitoring needs python 3.12"
print("setup ok: python", sys.version.split()[0], "clingo", clingo.__version__, "sympy", sympy.__version__)
PY
# determinism self-test of the simulator (event logs of the same seed must be byte-identical)
VERIF_SELFTEST_SEEDS=4 timeout 800 ./check selftest || exit 2
exit 0
